import Xo.CGen
import Xo.Model.Alloc
namespace LayM
open CGen
/-! Executable model of the layout writer for the whole grammar (mirrors the tree WITH the prototype fixes). -/

inductive VIn where
 | bits (b : Nat)
 | str (bs : List UInt8)
 | cap (n : Nat)
 | none
 | dict (fs : List (String × VIn))
 | list (xs : List VIn)
 | nd (shape : List Nat) (elems : List VIn)      -- ndarray, elements in C order
 | tagged (name : String) (v : VIn)
deriving Repr, Inhabited

abbrev Mem := Array UInt8
structure Buf where
  alloc : Alloc.AState
  mem : Mem

def le (w n : Nat) : List UInt8 := (List.range w).map fun i => UInt8.ofNat (n / 256 ^ i % 256)
def i64 (i : Int) : List UInt8 := le 8 (if i < 0 then (2^64 - i.natAbs) else i.toNat)

def writeAt (m : Mem) (off : Nat) (bs : List UInt8) : Mem := Id.run do
  let mut m := m
  let mut i := off
  for b in bs do
    m := m.setIfInBounds i b
    i := i + 1
  return m

/-- allocate with growth; memory grows by zero fill -/
def allocate (b : Buf) (size : Nat) (aligned : Bool := true) : Nat × Buf :=
  let a := if aligned then b.alloc.align else 1
  match Alloc.allocF 100000 b.alloc size a with
  | some (o, s') => (o, { alloc := s', mem := b.mem ++ Array.replicate (s'.capacity - b.mem.size) 0 })
  | none => (0, b)

def prod (l : List Nat) : Nat := l.foldl (· * ·) 1

/-- np.ndindex in C order -/
def ndindex : List Nat → List (List Nat)
 | [] => [[]]
 | d :: ds => (List.range d).flatMap fun i => (ndindex ds).map (i :: ·)

/-- iter_index(shape, order): index tuples in memory order -/
def iterIndex (shape order : List Nat) : List (List Nat) :=
  let cshape := order.map fun io => shape.getD io 0
  let aorder := (List.range order.length).map fun ii => order.idxOf ii
  (ndindex cshape).map fun ii => aorder.map fun io => ii.getD io 0

/-- C-order linear position of an index tuple -/
def cpos (shape idx : List Nat) : Nat :=
  (shape.zip idx).foldl (fun acc (d, i) => acc * d + i) 0

/-- shape of a value given as nested lists / ndarray (get_shape_from_array) -/
partial def shapeOf (v : VIn) (nd : Nat) : List Nat :=
  match v with
  | .nd sh _ => sh
  | .list xs =>
    if xs.length > 0 && nd > 1 then
      let s0 := shapeOf (xs.getD 0 default) (nd - 1)
      xs.length :: s0
    else [xs.length]
  | _ => []

/-- element of a nested value at an index tuple -/
partial def elemAt (v : VIn) (shape idx : List Nat) : VIn :=
  match v with
  | .nd _ es => es.getD (cpos shape idx) default
  | .list xs => match idx with
    | [] => v
    | [i] => xs.getD i default
    | i :: r => elemAt (xs.getD i default) (shape.drop 1) r
  | _ => v

def findIdx (l : List String) (n : String) : Option Nat := let i := l.idxOf n; if i < l.length then some i else none

structure ArrPlan where
  shape : List Nat
  order : List Nat
  strides : List Nat
  size : Nat
  header : List Nat            -- words written before the offset table
  dataOff : Nat
  itemOffsets : List Nat       -- per C-order position (dynamic items only)
deriving Inhabited

mutual
/-- info.size -/
partial def vsize (t : Ty) (v : VIn) : Nat :=
  match t, v with
  | .scalar s, _ => s.size
  | .string, .str bs => slot (bs.length + 1 + 8)
  | .string, .cap n => n + 8
  | .string, _ => 0
  | .ref _, _ => 8
  | .unionref .., _ => 16
  | .struct _ fs, .dict d =>
    match fieldsSize fs with
    | some s => s
    | none =>
      let lay := fieldLayout fs
      -- first dynamic field's class offset = start of dynamic data
      let d0 := ((fs.zip lay).filter fun (f, l) => f.2.ssize.isNone && !l.2).head?.map (·.2.1) |>.getD 0
      fs.foldl (fun acc (n, ft) =>
        match ft.ssize with
        | some _ => acc
        | none => acc + slot (vsize ft ((d.lookup n).getD .none))) d0
  | .struct .., _ => 0
  | .array .., _ => (arrPlan t v).size
partial def arrPlan (t : Ty) (v : VIn) : ArrPlan :=
  match t with
  | .array it shp ord =>
    let ai := arrInfo it shp ord
    let nd := shp.length
    let shape : List Nat :=
      if ai.staticShape then shp.map (·.getD 0) else shapeOf v nd
    let order := ord
    let isz := match it.ssize with | some s => s | none => 8
    let strides := getStrides shape order isz
    let items := prod shape
    if ai.staticShape && ai.staticType then
      { shape, order, strides, size := slot (isz * items), header := [], dataOff := 0, itemOffsets := [] }
    else
      let dyn := ai.dynIdx.map fun i => shape.getD i 0
      let hdr0 := dyn ++ (if !ai.staticShape && nd > 1 then strides else [])
      let off0 := 8 + 8 * hdr0.length
      if ai.staticType then
        let size := slot (off0 + isz * items)
        { shape, order, strides, size, header := size :: hdr0, dataOff := off0, itemOffsets := [] }
      else
        -- item offsets assigned in memory order
        let idxs := iterIndex shape order
        let (offs, fin) := idxs.foldl (fun (acc : List (Nat × Nat) × Nat) idx =>
            let sz := vsize it (elemAt v shape idx)
            (acc.1 ++ [(cpos shape idx, acc.2)], acc.2 + slot sz)) ([], off0 + 8 * items)
        let table := (List.range items).map fun p => (offs.lookup p).getD 0
        let size := slot fin
        { shape, order, strides, size, header := size :: hdr0, dataOff := off0, itemOffsets := table }
  | _ => { shape := [], order := [], strides := [], size := 0, header := [], dataOff := 0, itemOffsets := [] }
end

def wr (b : Buf) (off : Nat) (bs : List UInt8) : Buf := { b with mem := writeAt b.mem off bs }

mutual
/-- _to_buffer; returns the buffer after all writes (reference targets are allocated in the same buffer) -/
partial def toBuffer (t : Ty) (v : VIn) (off : Nat) (b : Buf) : Buf :=
  match t, v with
  | .scalar s, .bits x => wr b off (le s.size x)
  | .scalar _, _ => b
  | .string, .str bs =>
    let size := slot (bs.length + 1 + 8)
    let b := wr b off (le 8 size)
    wr b (off + 8) (bs ++ List.replicate (size - 8 - bs.length) 0)
  | .string, .cap n =>
    let b := wr b off (le 8 (n + 8))
    wr b (off + 8) (List.replicate n 0)
  | .string, _ => b
  | .ref _, .none => wr b off (i64 (-(2^63 : Int)))
  | .ref tt, v =>
    let (o, b) := construct tt v b
    wr b off (i64 ((o : Int) - off))
  | .unionref _ _, .none => wr b off (i64 (-(2^63 : Int)) ++ i64 (-1))
  | .unionref _ ms, .tagged nm dv =>
    let names := ms.map (·.name)
    match findIdx names nm with
    | some i =>
      let (o, b) := construct (ms.getD i default) dv b
      wr b off (i64 ((o : Int) - off) ++ i64 i)
    | none => b
  | .unionref .., _ => b
  | .struct _ fs, .dict d =>
    let lay := fieldLayout fs
    match fieldsSize fs with
    | some _ =>
      (fs.zip lay).foldl (fun b ((n, ft), (o, _)) => toBuffer ft ((d.lookup n).getD .none) (off + o) b) b
    | none =>
      let size := vsize t v
      let b := wr b off (le 8 size)
      -- data offsets of the dynamic fields
      let d0 := ((fs.zip lay).filter fun (f, l) => f.2.ssize.isNone && !l.2).head?.map (·.2.1) |>.getD 0
      let (doffs, _) := fs.foldl (fun (acc : List (String × Nat) × Nat) (n, ft) =>
          match ft.ssize with
          | some _ => acc
          | none => (acc.1 ++ [(n, acc.2)], acc.2 + slot (vsize ft ((d.lookup n).getD .none)))) ([], d0)
      -- _set_offsets: every dynamic field, at its class-level offset
      let b := (fs.zip lay).foldl (fun b ((n, ft), (o, _)) =>
          match ft.ssize with
          | some _ => b
          | none => wr b (off + o) (le 8 ((doffs.lookup n).getD 0))) b
      (fs.zip lay).foldl (fun b ((n, ft), (o, isRef)) =>
          let fo := if isRef then (doffs.lookup n).getD 0 else o
          toBuffer ft ((d.lookup n).getD .none) (off + fo) b) b
  | .struct .., _ => b
  | .array it shp ord, v =>
    let ai := arrInfo it shp ord
    let p := arrPlan t v
    let b := if p.header.isEmpty then b else wr b off (p.header.flatMap (le 8))
    let coff := off + 8 * p.header.length
    let items := prod p.shape
    if ai.staticType then
      -- data in memory order
      let isz := it.ssize.getD 0
      let idxs := iterIndex p.shape p.order
      (idxs.zip (List.range items)).foldl (fun b (idx, k) =>
        toBuffer it (elemAt v p.shape idx) (off + ai.dataOffset + k * isz) b) b
    else
      -- offset table in memory order, then the items in memory order
      let idxs := iterIndex p.shape p.order
      let b := wr b coff (idxs.flatMap fun idx => le 8 (p.itemOffsets.getD (cpos p.shape idx) 0))
      idxs.foldl (fun b idx =>
        toBuffer it (elemAt v p.shape idx) (off + p.itemOffsets.getD (cpos p.shape idx) 0) b) b
/-- T(value, _buffer=b): size, allocate (aligned), write -/
partial def construct (t : Ty) (v : VIn) (b : Buf) : Nat × Buf :=
  let size := vsize t v
  let (o, b) := allocate b size
  (o, toBuffer t v o b)
end

/-! value parser -/
def unhexBytes (s : String) : List UInt8 :=
  let hv (c : Char) : Nat := if c.isDigit then c.toNat - 48 else c.toNat - 87
  let rec go (cs : List Char) (acc : List UInt8) : List UInt8 :=
    match cs with
    | a :: b :: r => go r (UInt8.ofNat (hv a * 16 + hv b) :: acc)
    | _ => acc.reverse
  go s.toList []

partial def vinOfS : SExp → Option VIn
 | .list [.atom "bits", .atom n] => n.toNat?.map .bits
 | .list [.atom "str", .atom h] => some (.str (unhexBytes h))
 | .list [.atom "str"] => some (.str [])
 | .list [.atom "cap", .atom n] => n.toNat?.map .cap
 | .list [.atom "none"] => some .none
 | .list (.atom "dict" :: fs) => do
    let l ← fs.mapM fun | .list [.atom n, v] => (vinOfS v).map fun vv => (n, vv) | _ => none
    pure (.dict l)
 | .list (.atom "list" :: xs) => do pure (.list (← xs.mapM vinOfS))
 | .list (.atom "nd" :: .list sh :: xs) => do
    let s ← sh.mapM fun | .atom d => d.toNat? | _ => none
    pure (.nd s (← xs.mapM vinOfS))
 | .list [.atom "tagged", .atom n, v] => (vinOfS v).map (.tagged n)
 | _ => none

def hexOf (m : Mem) : String :=
  m.foldl (fun acc b => acc ++ (if b < 16 then "0" else "") ++ String.ofList (Nat.toDigits 16 b.toNat)) ""
end LayM
