import Xo.Model.BufPrim
import Xo.Drv.Util
/-! line-protocol driver for the CPU buffer primitives (component `prim`); memories travel as hex, `-` = empty

  native <mem> <off> <src> <so> <n>        update_from_native        → `ok <mem'>` | `err`
  tonative <mem> <off> <n>                 to_native / to_bytearray   → `bytes <hex>`
  copyto <mem> <dest> <doff> <soff> <n>    copy_to_native             → `ok <dest'>` | `err`
  frombuf <mem> <off> <src>                update_from_buffer         → `ok <mem'>` | `err`
  xbuf <same:0|1> <mem> <off> <src> <so> <n>   update_from_xbuffer    → `ok <mem'>` | `err`
  self <mem> <off> <so> <n>                update_from_xbuffer(self)  → `ok <mem'>` | `err`
  vget <mem> <off> <w> <count> <i>         to_nplike element read     → `bytes <hex>` | `err`
  vset <mem> <off> <w> <count> <i> <bytes> write through the view     → `ok <mem'>` | `err`
  nplike <mem> <off> <sw> <signed:0|1> <dw> <e0,e1,…>   update_from_nplike (integer conversion) → `ok <mem'>` | `err`
-/
namespace Drv.PrimD
open BufPrim MemS Drv

def hx (bs : List UInt8) : String := let h := hexOf bs; if h == "" then "-" else h

def showR : Except Err Mem → String
 | .ok m => "ok " ++ hx m
 | .error _ => "err"

def natsOf (s : String) : Option (List Nat) := if s == "-" then some [] else (s.splitOn ",").mapM (·.toNat?)

def step (u : Unit) (line : String) : Unit × String :=
  match words line with
  | ["native", m, off, src, so, n] =>
    match unhex m, off.toNat?, unhex src, so.toNat?, n.toNat? with
    | some m, some off, some src, some so, some n => (u, showR (updateFromNative m off src so n))
    | _, _, _, _, _ => (u, "bad-op")
  | ["tonative", m, off, n] =>
    match unhex m, off.toNat?, n.toNat? with
    | some m, some off, some n => (u, "bytes " ++ hx (toNative m off n))
    | _, _, _ => (u, "bad-op")
  | ["copyto", m, d, doff, soff, n] =>
    match unhex m, unhex d, doff.toNat?, soff.toNat?, n.toNat? with
    | some m, some d, some doff, some soff, some n => (u, showR (copyToNative m d doff soff n))
    | _, _, _, _, _ => (u, "bad-op")
  | ["frombuf", m, off, src] =>
    match unhex m, off.toNat?, unhex src with
    | some m, some off, some src => (u, showR (updateFromBuffer m off src))
    | _, _, _ => (u, "bad-op")
  | ["xbuf", same, m, off, src, so, n] =>
    match unhex m, off.toNat?, unhex src, so.toNat?, n.toNat? with
    | some m, some off, some src, some so, some n => (u, showR (updateFromXbuffer (same == "1") m off src so n))
    | _, _, _, _, _ => (u, "bad-op")
  | ["self", m, off, so, n] =>
    match unhex m, off.toNat?, so.toNat?, n.toNat? with
    | some m, some off, some so, some n => (u, showR (updateFromSelf m off so n))
    | _, _, _, _ => (u, "bad-op")
  | ["vget", m, off, w, c, i] =>
    match unhex m, off.toNat?, w.toNat?, c.toNat?, i.toNat? with
    | some m, some off, some w, some c, some i =>
      match toNplike m off w c with
      | .ok v => (u, "bytes " ++ hx (v.get m i))
      | .error _ => (u, "err")
    | _, _, _, _, _ => (u, "bad-op")
  | ["vset", m, off, w, c, i, bs] =>
    match unhex m, off.toNat?, w.toNat?, c.toNat?, i.toNat?, unhex bs with
    | some m, some off, some w, some c, some i, some bs =>
      match toNplike m off w c with
      | .ok v => (u, "ok " ++ hx (v.set m i bs))
      | .error _ => (u, "err")
    | _, _, _, _, _, _ => (u, "bad-op")
  | ["nplike", m, off, sw, sg, dw, es] =>
    match unhex m, off.toNat?, sw.toNat?, dw.toNat?, natsOf es with
    | some m, some off, some sw, some dw, some es =>
      (u, showR (updateFromNplike m off dw (convInt sw (sg == "1") dw) es))
    | _, _, _, _, _ => (u, "bad-op")
  | _ => (u, "bad-op")
end Drv.PrimD
