import Xo.Model.Hybrid
import Xo.Drv.Util
/-! line-protocol driver of the hybrid-class model (component `hyb`)

  univ <c0>;<c1>;…          class = `f=K,f=K,…|xo>py,xo>py`   K: n | N<cls> | R<cls>      (resets everything)
  buf <ctx>                 → `buf <index>`
  new <H> <cls> <buf> <py=V …>     V: n<int> | i<handle> | none     → description of the new instance | `err <class>`
  get <H> <handle> <py>     → `num <v>` | `none` | `noattr` | description (binds <H> for inst/bare results)
  set <handle> <py> <V>     → `ok` | `err <class>`
  copy <H> <handle> <buf>   → description
  move <handle> <buf>       → `ok` | `err <class>`
  pyset <handle> <k> <int> | pyget <handle> <k>
  desc <handle>             → description

  description: `inst cls=<c> buf=<b> same=<handles with the same location> movable=<b> py=<k:v,…>`
-/
namespace Drv.HybD
open Hyb Drv

structure D where
  u : Universe := []
  s : St := { heap := { roots := [], next := 0, ctxOf := fun _ => 0 }, insts := [] }
  ctxs : List Nat := []
  names : List (String × Sum Nat Loc) := []        -- handle ↦ instance id | bare xobject location

def init : D := {}

def parseKind (w : String) : Option FKind :=
  if w == "n" then some .num
  else if w.startsWith "N" then (w.drop 1).toNat?.map .nested
  else if w.startsWith "R" then (w.drop 1).toNat?.map .ref
  else none

def parseCls (w : String) : Option Cls :=
  match w.splitOn "|" with
  | [fs, rn] =>
    let fl := if fs == "" then some [] else (fs.splitOn ",").mapM fun e =>
      match e.splitOn "=" with
      | [n, k] => (parseKind k).map fun k => (n, k)
      | _ => none
    let rl := if rn == "" then some [] else (rn.splitOn ",").mapM fun e =>
      match e.splitOn ">" with
      | [a, b] => some (a, b)
      | _ => none
    match fl, rl with
    | some f, some r => some { fields := f, rename := r }
    | _, _ => none
  | _ => none

def locOf (d : D) (h : Sum Nat Loc) : Loc :=
  match h with
  | .inl i => (d.s.inst i).loc
  | .inr l => l

def sameNames (d : D) (l : Loc) : String :=
  ",".intercalate ((d.names.filter fun (_, h) => locOf d h == l).map (·.1)).mergeSort

def showPy (py : List (String × Int)) : String :=
  ",".intercalate ((py.map fun (k, v) => s!"{k}:{v}").mergeSort)

def descInst (d : D) (i : Nat) : String :=
  let x := d.s.inst i
  s!"inst cls={x.cls} buf={x.loc.buf} same={sameNames d x.loc} movable={x.movable} py={showPy x.py}"

def showErr : HErr → String
 | .memory => "err Memory" | .name => "err Name" | .value => "err Value"

def parseVal (d : D) (w : String) : Option HVal :=
  if w == "none" then some .none_
  else if w.startsWith "n" then (w.drop 1).toInt?.map .num
  else if w.startsWith "i" then
    match d.names.lookup (w.drop 1).toString with
    | some (.inl i) => some (.dressed i)
    | _ => none
  else none

def step (d : D) (line : String) : D × String :=
  match words line with
  | ["univ", spec] =>
    match (spec.splitOn ";").mapM parseCls with
    | some u => ({ u }, "ok")
    | none => (d, "bad-op")
  | ["buf", c] =>
    match c.toNat? with
    | some c =>
      let k := d.ctxs.length
      ({ d with ctxs := d.ctxs ++ [c] }, s!"buf {k}")
    | none => (d, "bad-op")
  | "new" :: hn :: cls :: buf :: kws =>
    let kw := kws.mapM fun w => match w.splitOn "=" with
      | [py, v] => (parseVal d v).map fun v => (py, v)
      | _ => none
    match cls.toNat?, buf.toNat?, kw with
    | some c, some b, some kw =>
      match hnew d.u d.s c b kw with
      | (s', .ok i) =>
        let d' := { d with s := s', names := d.names ++ [(hn, .inl i)] }
        (d', descInst d' i)
      | (s', .error e) => ({ d with s := s' }, showErr e)
    | _, _, _ => (d, "bad-op")
  | ["get", hn, h, py] =>
    match d.names.lookup h with
    | some (.inl i) =>
      let (s', g) := hget d.u d.s i py
      let d := { d with s := s' }
      match g with
      | .num v => (d, s!"num {v}")
      | .none_ => (d, "none")
      | .noattr => (d, "noattr")
      | .inst j =>
        let d' := { d with names := d.names ++ [(hn, .inl j)] }
        (d', descInst d' j)
      | .bare l =>
        let d' := { d with names := d.names ++ [(hn, .inr l)] }
        (d', s!"bare buf={l.buf} same={sameNames d' l}")
    | _ => (d, "bad-op")
  | ["set", h, py, v] =>
    match d.names.lookup h, parseVal d v with
    | some (.inl i), some v =>
      match hset d.u d.s i py v with
      | (s', none) => ({ d with s := s' }, "ok")
      | (s', some e) => ({ d with s := s' }, showErr e)
    | _, _ => (d, "bad-op")
  | ["copy", hn, h, buf] =>
    match d.names.lookup h, buf.toNat? with
    | some (.inl i), some b =>
      match hcopy d.u d.s i b with
      | some (j, s') =>
        let d' := { d with s := s', names := d.names ++ [(hn, .inl j)] }
        (d', descInst d' j)
      | none => (d, "err Value")
    | _, _ => (d, "bad-op")
  | ["move", h, buf] =>
    match d.names.lookup h, buf.toNat? with
    | some (.inl i), some b =>
      match hmove d.u d.s i b with
      | (s', none) => ({ d with s := s' }, "ok")
      | (s', some e) => ({ d with s := s' }, showErr e)
    | _, _ => (d, "bad-op")
  | ["pyset", h, k, v] =>
    match d.names.lookup h, v.toInt? with
    | some (.inl i), some v =>
      let x := d.s.inst i
      ({ d with s := d.s.setInst i { x with py := (x.py.filter (·.1 != k)) ++ [(k, v)] } }, "ok")
    | _, _ => (d, "bad-op")
  | ["pyget", h, k] =>
    match d.names.lookup h with
    | some (.inl i) => (d, match (d.s.inst i).py.lookup k with | some v => s!"num {v}" | none => "noattr")
    | _ => (d, "bad-op")
  | ["desc", h] =>
    match d.names.lookup h with
    | some (.inl i) => (d, descInst d i)
    | some (.inr l) => (d, s!"bare buf={l.buf} same={sameNames d l}")
    | none => (d, "bad-op")
  | _ => (d, "bad-op")
end Drv.HybD
