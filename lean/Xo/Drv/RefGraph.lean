import Xo.Model.RefGraphX
import Xo.Drv.Util
/-! line-protocol driver for the reference-graph proof model (component `rg`): the definitions the C08 history theorems are
about are the ones executed here -/
namespace Drv.RGD
open RG Drv

def parseFK (w : String) : Option FK :=
  match w.toList with
  | ['s'] => some .scal
  | 'r' :: r => (String.ofList r).toNat?.map .ref
  | 'u' :: r =>
    let ps := (String.ofList r).splitOn "+"
    if ps.all (·.toNat?.isSome) then some (.uref (ps.filterMap (·.toNat?))) else none
  | _ => none

def parseCls (w : String) : Option Cls :=
  let fs := (w.splitOn ",").filter (· ≠ "")
  let ps := fs.map parseFK
  if ps.all (·.isSome) then some (ps.filterMap id) else none

def parseUniv (w : String) : Option Univ :=
  let cs := (w.splitOn ";").filter (· ≠ "")
  let ps := cs.map parseCls
  if ps.all (·.isSome) then some (ps.filterMap id) else none

def parseNats (w : String) : Option (List Nat) :=
  if w == "-" then some [] else
  let ps := (w.splitOn ",").map (·.toNat?)
  if ps.all (·.isSome) then some (ps.filterMap id) else none

def showRefs (u : Univ) (s : St) : String :=
  let ents := s.live.reverse.filter (·.cls.isSome)
  let parts := ents.flatMap fun e =>
    match e.cls.bind (u[·]?) with
    | none => []
    | some cl => (List.range cl.length).filterMap fun k =>
      match fieldAt u e k with
      | some (.scal, _) => none
      | some (fk, a) =>
        let r := readRef s fk a
        some s!"{e.addr}.{k}={match r.1 with | some t => toString t | none => "N"}/{r.2}"
      | none => none
  " ".intercalate parts

def showState (u : Univ) (s : St) : String :=
  s!"cap {s.b.a.capacity} sum {cksum s.b.mem} refs [{showRefs u s}]"

structure D where
  u : Univ
  s : St
  x : St          -- a second buffer: destination (and source) of cross-buffer copies

def init : D := { u := [], s := initSt 0 1 none, x := initSt 0 1 none }

/-- recursion budget of a cross-buffer copy (the library's is Python's recursion limit; the harness only copies acyclic graphs) -/
def xfuel : Nat := 400

def run (d : D) (op : Op) : D × String :=
  let s' := step d.u d.s op
  ({ d with s := s' }, s!"ok {showState d.u s'}")

def step (d : D) (line : String) : D × String :=
  match words line with
  | ["univ", w] =>
    match parseUniv w with
    | some u => ({ d with u := u }, s!"ok {u.map csize}")
    | none => (d, "bad-op")
  | ["buf", cap, al, gs] =>
    match cap.toNat?, al.toNat? with
    | some c, some a => let s := initSt c a gs.toNat?; ({ d with s := s }, s!"ok {showState d.u s}")
    | _, _ => (d, "bad-op")
  | ["new", c, vs] =>
    match c.toNat?, parseNats vs with
    | some c, some vs =>
      let (s', o) := newObj d.u d.s c vs
      ({ d with s := s' }, s!"obj {match o with | some a => toString a | none => "-"} {showState d.u s'}")
    | _, _ => (d, "bad-op")
  | ["bindobj", h, k, t] =>
    match h.toNat?, k.toNat?, t.toNat? with
    | some h, some k, some t => run d (.bindObj h k t)
    | _, _, _ => (d, "bad-op")
  | ["bindnull", h, k] =>
    match h.toNat?, k.toNat? with
    | some h, some k => run d (.bindNull h k)
    | _, _ => (d, "bad-op")
  | ["bindval", h, k, c, vs] =>
    match h.toNat?, k.toNat?, c.toNat?, parseNats vs with
    | some h, some k, some c, some vs => run d (.bindVal h k c vs)
    | _, _, _, _ => (d, "bad-op")
  | ["setscal", h, k, v] =>
    match h.toNat?, k.toNat?, v.toNat? with
    | some h, some k, some v => run d (.setScal h k v)
    | _, _, _ => (d, "bad-op")
  | ["setvia", h, k, j, v] =>
    match h.toNat?, k.toNat?, j.toNat?, v.toNat? with
    | some h, some k, some j, some v => run d (.setVia h k j v)
    | _, _, _, _ => (d, "bad-op")
  | ["copy", h] =>
    match h.toNat? with
    | some h =>
      let (s', o) := copyObj d.u d.s h
      ({ d with s := s' }, s!"obj {match o with | some a => toString a | none => "-"} {showState d.u s'}")
    | none => (d, "bad-op")
  | ["upd", h, t] =>
    match h.toNat?, t.toNat? with
    | some h, some t => run d (.upd h t)
    | _, _ => (d, "bad-op")
  | ["alloc", n, al] =>
    match n.toNat? with
    | some n => run d (.alloc n (al == "aligned"))
    | none => (d, "bad-op")
  | ["grow", n] =>
    match n.toNat? with
    | some n => run d (.grow n)
    | none => (d, "bad-op")
  | ["xbuf", cap, al, gs] =>
    match cap.toNat?, al.toNat? with
    | some c, some a => let s := initSt c a gs.toNat?; ({ d with x := s }, s!"ok {showState d.u s}")
    | _, _ => (d, "bad-op")
  | ["xcopy", h] =>          -- the node at `h` of the first buffer is copy-constructed in the second
    match h.toNat? with
    | some h =>
      match xcopyAt d.u xfuel d.s d.x h with
      | some (x', o) => ({ d with x := x' }, s!"obj {o} {showState d.u x'}")
      | none => (d, s!"obj - {showState d.u d.x}")
    | none => (d, "bad-op")
  | ["xback", h] =>          -- the node at `h` of the second buffer is copy-constructed in the first
    match h.toNat? with
    | some h =>
      match xcopyAt d.u xfuel d.x d.s h with
      | some (s', o) => ({ d with s := s' }, s!"obj {o} {showState d.u s'}")
      | none => (d, s!"obj - {showState d.u d.s}")
    | none => (d, "bad-op")
  | ["dump"] => (d, s!"mem {hexOf d.s.b.mem}")
  | _ => (d, "bad-op")

end Drv.RGD
