import Xo.Model.Spec
import Xo.Lemmas.SpecSeg
import Xo.Drv.Util
/-! line-protocol driver for the source specialiser (component `spec`); all text travels hex-encoded (UTF-8 bytes as Latin-1 chars)

  spec <target> <hexsrc> [<hexname>:<hexline>,<hexline>,… …]   → `ok <hex>` | `err assertion|io|value`
  seg <hexsrc>                                                 → `seg wf=<b> render=<b> plain=<b> nph=<n> nmem=<n>` (hypotheses of C15_target_text)
  geom <n> <block>                                             → `grid <g> block <b> global <n>`
  exec <target> <n> <block>                                    → `cnt <len> sum <Σ> sorted-range <bool>`
-/
namespace Drv.SpecD
open Spec Drv

def strOfBytes (bs : List UInt8) : Str := bs.map fun b => Char.ofNat b.toNat
def bytesOfStr (s : Str) : List UInt8 := s.map fun c => UInt8.ofNat c.toNat

def targetOf : String → Option Target
 | "cpu_serial" => some .cpu_serial | "cpu_openmp" => some .cpu_openmp | "opencl" => some .opencl | "cuda" => some .cuda
 | _ => none

def parseFile (w : String) : Option (Str × List Str) :=
  match w.splitOn ":" with
  | [n, ls] =>
    match unhex n, (if ls == "" then some [] else (ls.splitOn ",").mapM unhex) with
    | some nb, some lbs => some (strOfBytes nb, lbs.map strOfBytes)
    | _, _ => none
  | _ => none

def step (u : Unit) (line : String) : Unit × String :=
  match words line with
  | "spec" :: tg :: h :: fs =>
    match targetOf tg, unhex h, fs.mapM parseFile with
    | some t, some bs, some files =>
      match specialize t (fun n => files.lookup n) (strOfBytes bs) with
      | .ok out => (u, "ok " ++ (let hx := hexOf (bytesOfStr out); if hx == "" then "-" else hx))
      | .error .assertion => (u, "err assertion")
      | .error .io => (u, "err io")
      | .error .value => (u, "err value")
    | _, _, _ => (u, "bad-op")
  | ["seg", h] =>
    -- the hypotheses of theorem C15_target_text for this source, with segs := segment (joinLines (splitLines src))
    match unhex h with
    | some bs =>
      let src := strOfBytes bs
      let body := joinLines (splitLines src)
      let segs := segment body
      let nph := (segs.filter fun | .ph _ => true | _ => false).length
      let nmem := (segs.filter fun | .ph .mem => true | _ => false).length
      (u, s!"seg wf={wfb segs} render={decide (render PH.text segs = body)} plain={(splitLines src).all plainB} nph={nph} nmem={nmem}")
    | none => (u, "bad-op")
  | ["geom", n, b] =>
    match n.toNat?, b.toNat? with
    | some n, some b => let g := geometry n b; (u, s!"grid {g.grid} block {g.block} global {g.global}")
    | _, _ => (u, "bad-op")
  | ["exec", tg, n, b] =>
    match targetOf tg, n.toNat?, b.toNat? with
    | some t, some n, some b =>
      let l := execIndices t (geometry n b) n
      (u, s!"cnt {l.length} sum {l.foldl (· + ·) 0} range {decide (l = List.range n)}")
    | _, _, _ => (u, "bad-op")
  | _ => (u, "bad-op")
end Drv.SpecD
