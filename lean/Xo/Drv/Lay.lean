import Xo.LayR
import Xo.Drv.LayP
import Xo.Model.Assign
import Xo.Drv.Util
/-! line-protocol driver of the executable layout model (component `lay`): one buffer, named types and objects

  buf <cap> <align> | fill <off> <n> <byte> | alloc <n> | free <off> <n> | type <name> <sexp>
  new <type> <handle> <value-sexp>        → `off <o> size <s> cap <c> mem <hex of the whole buffer>`
  deep <handle> <path>                    → `val <canonical deep value>` | `err <class>`
  caches <handle> <path>                  → structure a view caches
  set <handle> <path> <value-sexp>        → `ok|err <class> cap <c> mem <hex>`  (image also on the error path)
-/
namespace Drv.LayD
open CGen LayM
structure St where
  types : List (String × Ty) := []
  objs : List (String × (Ty × Nat)) := []
  pvals : List (String × Lay.Val) := []      -- proof-model value of reference-free objects (while known)
  buf : Buf := { alloc := { capacity := 0, chunks := [], align := 1, growStep := none }, mem := #[] }
def parsePath (s : String) : List Step :=
  if s == "-" then [] else
  (s.splitOn "/").filterMap fun seg =>
    match seg.splitOn ":" with
    | ["f", n] => some (Step.field n)
    | ["i", is] => some (Step.item ((is.splitOn ",").filterMap String.toInt?))
    | _ => none
def step (s : St) (line : String) : St × String :=
  let l := line.trimAscii.toString
  match l.splitOn " " with
  | "buf" :: cap :: al :: _ =>
    match cap.toNat?, al.toNat? with
    | some c, some a => ({ s with buf := { alloc := { capacity := c, chunks := [⟨0, c⟩], align := a, growStep := none }, mem := Array.replicate c 0 }, objs := [] }, "ok")
    | _, _ => (s, "bad-op")
  | "fill" :: o :: n :: byte :: _ =>
    match o.toNat?, n.toNat?, byte.toNat? with
    | some o, some n, some x => ({ s with buf := wr s.buf o (List.replicate n (UInt8.ofNat x)) }, "ok")
    | _, _, _ => (s, "bad-op")
  | "alloc" :: n :: _ =>
    match n.toNat? with
    | some k => let (o, b) := allocate s.buf k; ({ s with buf := b }, s!"off {o}")
    | none => (s, "bad-op")
  | "free" :: o :: n :: _ =>
    match o.toNat?, n.toNat? with
    | some o, some n => ({ s with buf := { s.buf with alloc := { s.buf.alloc with chunks := Alloc.freeChunks s.buf.alloc.chunks o n } } }, "ok")
    | _, _ => (s, "bad-op")
  | "type" :: name :: rest =>
    match parseTy (" ".intercalate rest) with
    | some t => ({ s with types := (name, t) :: s.types }, "ok")
    | none => (s, "bad-type")
  | "new" :: tname :: hname :: rest =>
    match s.types.lookup tname, (parseS (tokenize (" ".intercalate rest))).bind (fun x => vinOfS x.1) with
    | some t, some v =>
      let (o, b) := construct t v s.buf
      -- the proof model (`Lay`) on the same case: same size, same bytes, and its view reads the value back
      let pm : Option String :=
        match Drv.LayP.tyP t, Drv.LayP.valP t v with
        | some tp, some vp =>
          let (o', b0) := allocate s.buf (Lay.vsize tp vp)
          let img := Drv.LayP.writeP tp vp o' b0.mem
          if Lay.vsize tp vp != vsize t v then some s!"PROOF-MODEL-DIFFERS size {Lay.vsize tp vp}"
          else if img != b.mem.toList then some "PROOF-MODEL-DIFFERS bytes"
          else if Drv.LayP.showP t (Lay.readD tp img o') != deep b.mem t o then
            some s!"PROOF-MODEL-DIFFERS read {Drv.LayP.showP t (Lay.readD tp img o')}"
          else none
        | none, _ => Drv.LayP.checkRefObject t v b.mem o (vsize t v)      -- the type holds references
        | _, _ => none
      let pv := match Drv.LayP.valP t v with
        | some vp => (hname, vp) :: s.pvals
        | none => s.pvals.filter (·.1 != hname)
      match pm with
      | some e => ({ s with buf := b, objs := (hname, (t, o)) :: s.objs }, e)
      | none =>
      ({ s with buf := b, objs := (hname, (t, o)) :: s.objs, pvals := pv }, s!"off {o} size {vsize t v} cap {b.alloc.capacity} mem {LayM.hexOf b.mem}")
    | _, _ => (s, "bad-op")
  | ["deep", h, path] =>
    match s.objs.lookup h with
    | some (t, o) =>
      match follow s.buf.mem t o (parsePath path) with
      | .ok (tt, a) => (s, s!"val {deep s.buf.mem tt a}")
      | .error e => (s, s!"err {e.str}")
    | none => (s, "bad-op")
  | ["caches", h, path] =>
    match s.objs.lookup h with
    | some (t, o) =>
      match follow s.buf.mem t o (parsePath path) with
      | .ok (tt, a) =>
        match resolve tt s.buf.mem a with
        | some (t2, a2) =>
          -- the proof model's view strides (the subject of `view_strides`) on the same bytes
          let pm : Bool := match t2, Drv.LayP.tyP t2 with
            | .array .., some (.array it shp ord) => Lay.viewStrides it shp ord s.buf.mem.toList a2 == (arrView t2 s.buf.mem a2).strides
            | _, _ => true
          if !pm then (s, "PROOF-MODEL-DIFFERS strides") else
          (s, s!"caches {viewCaches s.buf.mem t2 a2}")
        | none => (s, "caches none")
      | .error e => (s, s!"err {e.str}")
    | none => (s, "bad-op")
  | "set" :: h :: path :: rest =>
    match s.objs.lookup h, (parseS (tokenize (" ".intercalate rest))).bind (fun x => vinOfS x.1) with
    | some (t, o), some v =>
      match follow s.buf.mem t o (parsePath path) with
      | .ok (tt, a) =>
        let (b, e) := assign tt a v s.buf
        -- the proof model's slot assignment (scalars, strings) on the same memory
        let pm : Bool :=
          match tt, v with
          | .scalar sc, .bits x => (Lay.setScalar s.buf.mem.toList a sc.size x) == b.mem.toList && e.isNone
          | .string, .str bs =>
            (match Lay.rewriteStr s.buf.mem.toList a (.str bs) with
             | .ok m' => m' == b.mem.toList && e.isNone
             | .error _ => e.isSome && b.mem.toList == s.buf.mem.toList)
          | .string, .cap n =>
            (match Lay.rewriteStr s.buf.mem.toList a (.cap n) with
             | .ok m' => m' == b.mem.toList && e.isNone
             | .error _ => e.isSome && b.mem.toList == s.buf.mem.toList)
          | .array _ shp0 _, _ =>
            -- the proof model's whole-array update (`Lay.updateArr`, the subject of the C11_array_update_* theorems) on the same memory
            (match Drv.LayP.tyP tt, Drv.LayP.valP tt v with
             | some (.array it shp ord), some (.arr sh items) =>
               let given := LayM.shapeOf v shp0.length
               (match Lay.updateArr it shp ord s.buf.mem.toList a (.arr (if given == sh then sh else given) items) with
                | .ok m' => m' == b.mem.toList && e.isNone
                | .error _ => e.isSome && b.mem.toList == s.buf.mem.toList)
             | _, _ => true)
          | _, _ => true
        -- the proof model's PATH machinery (`leafAt`, `updAt`) on the same assignment: the leaf's address and width, and
        -- the whole object's value afterwards
        let (pl, pv) : Option String × List (String × Lay.Val) :=
          match tt, v, Drv.LayP.tyP t, s.pvals.lookup h with
          | .scalar sc, .bits x, some tp, some vp =>
            (match Drv.LayP.pathP t vp (parsePath path) with
             | some pp =>
               (match Lay.leafAt tp vp pp, Lay.updAt tp vp pp x with
                | some (lo, w), some vp' =>
                  if o + lo != a || w != sc.size then (some s!"PROOF-MODEL-DIFFERS leaf {o + lo} {w}", s.pvals)
                  else if Lay.getAt tp vp pp != some (MemS.fromLE (MemS.readAt s.buf.mem.toList a sc.size)) then
                    (some s!"PROOF-MODEL-DIFFERS getAt", s.pvals)
                  else if Drv.LayP.showP t vp'.norm != deep b.mem t o then (some s!"PROOF-MODEL-DIFFERS upd {Drv.LayP.showP t vp'.norm}", s.pvals)
                  else (none, (h, vp') :: s.pvals.filter (·.1 != h))
                | _, _ => (some "PROOF-MODEL-DIFFERS leaf none", s.pvals))
             | none => (some "PROOF-MODEL-DIFFERS path", s.pvals))
          | _, _, some tp, some vp =>
            -- a WHOLE part (string, nested struct, nested array) is assigned: the proof model's `partAt` must locate it where the
            -- library writes, and - when the new value has the size of the old one and the library accepts it - `setAt` must give
            -- the value the whole object then reads (the definitions of C10_set_part_at_path)
            (match Drv.LayP.pathP t vp (parsePath path), Drv.LayP.valP tt v with
             | some pp, some v2 =>
               (match Lay.partAt tp vp pp with
                | some (lo, t', v1) =>
                  if o + lo != a then (some s!"PROOF-MODEL-DIFFERS part {o + lo}", s.pvals)
                  else if e.isNone && Lay.vsize t' v2 == Lay.vsize t' v1 then
                    (match Lay.setAt tp vp pp v2 with
                     | some vp' =>
                       if Drv.LayP.showP t vp'.norm != deep b.mem t o then (some s!"PROOF-MODEL-DIFFERS setAt {Drv.LayP.showP t vp'.norm}", s.pvals)
                       else (none, (h, vp') :: s.pvals.filter (·.1 != h))
                     | none => (some "PROOF-MODEL-DIFFERS setAt none", s.pvals))
                  else (none, s.pvals.filter (·.1 != h))
                | none => (some "PROOF-MODEL-DIFFERS part none", s.pvals))
             | _, _ => (none, s.pvals.filter (·.1 != h)))
          | _, _, _, _ => (none, s.pvals.filter (·.1 != h))
        if !pm then ({ s with buf := b }, "PROOF-MODEL-DIFFERS assign") else
        match pl with
        | some e => ({ s with buf := b }, e)
        | none =>
        ({ s with buf := b, pvals := pv }, (match e with | none => "ok" | some e => s!"err {e.str}") ++ s!" cap {b.alloc.capacity} mem {LayM.hexOf b.mem}")
      | .error e => (s, s!"err {e.str} cap {s.buf.alloc.capacity} mem {LayM.hexOf s.buf.mem}")
    | _, _ => (s, "bad-op")
  | _ => (s, "bad-op")

def init : St := {}
end Drv.LayD
