import Xo.Model.Placement
import Xo.Drv.Util
/-! line-protocol driver of the placement model (component `place`)

  place <ctx|-> <buf:ctxOfBuf|-> <none|aligned|packed|N>   → `err offset` | `err context` | `fresh <ctx> <how>` | `given <buf> <how>`
                                                            how: `alloc 1` | `alloc 0` | `at N`          (default context: 0)
-/
namespace Drv.PlaceD
open Place Drv

def showHow : How → String
 | .alloc true => "alloc 1" | .alloc false => "alloc 0" | .at n => s!"at {n}"

def step (u : Unit) (line : String) : Unit × String :=
  match words line with
  | ["place", c, b, o] =>
    let ctx : Option (Option Nat) := if c == "-" then some none else c.toNat?.map some
    let buf : Option (Option (Nat × Nat)) :=
      if b == "-" then some none else
        match b.splitOn ":" with
        | [x, y] => match x.toNat?, y.toNat? with
          | some x, some y => some (some (x, y))
          | _, _ => none
        | _ => none
    let off : Option Off :=
      if o == "none" then some .none else if o == "aligned" then some .aligned else if o == "packed" then some .packed
      else o.toNat?.map .at
    match ctx, buf, off with
    | some ctx, some buf, some off =>
      match decide 0 ⟨ctx, buf, off⟩ with
      | .error .offsetWithoutBuffer => (u, "err offset")
      | .error .mismatchedContext => (u, "err context")
      | .ok (.fresh c, h) => (u, s!"fresh {c} {showHow h}")
      | .ok (.given b, h) => (u, s!"given {b} {showHow h}")
    | _, _, _ => (u, "bad-op")
  | _ => (u, "bad-op")
end Drv.PlaceD
