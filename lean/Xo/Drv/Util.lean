/-! shared helpers of the line-protocol drivers -/
namespace Drv

def hexDigit (n : Nat) : Char := if n < 10 then Char.ofNat (48 + n) else Char.ofNat (87 + n)
def hexOf (bs : List UInt8) : String :=
  String.ofList (bs.flatMap fun b => [hexDigit (b.toNat / 16), hexDigit (b.toNat % 16)])
def hexVal (c : Char) : Option Nat :=
  if '0' ≤ c ∧ c ≤ '9' then some (c.toNat - 48)
  else if 'a' ≤ c ∧ c ≤ 'f' then some (c.toNat - 87) else none
def unhexL : List Char → Option (List UInt8)
 | [] => some []
 | a :: b :: r => match hexVal a, hexVal b, unhexL r with
    | some x, some y, some t => some (UInt8.ofNat (x * 16 + y) :: t)
    | _, _, _ => none
 | _ => none
def unhex (s : String) : Option (List UInt8) := if s == "-" then some [] else unhexL s.toList

/-- checksum of a byte list, same formula in the Python harness -/
def cksum (bs : List UInt8) : Nat := bs.foldl (fun h b => (h * 31 + b.toNat + 1) % 1000000007) 7

def words (line : String) : List String :=
  (line.trimAscii.toString.splitOn " ").filter (· ≠ "")

partial def loop {σ : Type} (h : IO.FS.Stream) (out : IO.FS.Stream) (step : σ → String → σ × String) (s : σ) : IO Unit := do
  let line ← h.getLine
  if line.isEmpty then return ()
  let (s', o) := step s line
  out.putStrLn o
  loop h out step s'

end Drv
