import Xo.Model.KernelCall
import Xo.Drv.Util
/-! line-protocol driver for the kernel-call model (component `kcall`)

  scalar <lo> <hi> <v>                 → `val <v>` | `err overflow`
  xobj <grows> <off>                   → `ptr <storage> <off>`      (buffer grown <grows> times since creation)
  nparr <ctype> <firstOff>             → `ptr 0 <firstOff> <ctype>*`
  xarr <ctype> <grows> <off> <dataOff> → `ptr <storage> <off+dataOff> <ctype>*`
  call <ndecl> <npositional> <names>   → `ok <n>` | `err value|assertion|key`   (the `mix(obj, x, n, arr)` kernel)
-/
namespace Drv.KCallD
open KCall Drv

def mixDecls : List Decl :=
  [{ name := "obj", pointer := false, scalar := false, ctype := "KS" },
   { name := "x", pointer := false, scalar := true, ctype := "double", lo := -(2^1100 : Int), hi := (2^1100 : Int) },
   { name := "n", pointer := false, scalar := true, ctype := "int32_t", lo := -2147483648, hi := 2147483647 },
   { name := "arr", pointer := true, scalar := true, ctype := "double" }]

def dummy (n : String) : Val :=
  if n == "obj" then .xobj 0 0 else if n == "arr" || n == "array" then .nparr "double" 0 0 else .num 1

def showErr : Err → String
 | .value => "err value" | .assertion => "err assertion" | .key => "err key" | .overflow => "err overflow"

def step (u : Unit) (line : String) : Unit × String :=
  match words line with
  | ["scalar", lo, hi, v] =>
    match lo.toInt?, hi.toInt?, v.toInt? with
    | some lo, some hi, some v =>
      match toArg { name := "v", pointer := false, scalar := true, ctype := "", lo, hi } (.num v) with
      | .ok (.scalarV x) => (u, s!"val {x}")
      | .ok _ => (u, "?")
      | .error e => (u, showErr e)
    | _, _, _ => (u, "bad-op")
  | ["xobj", g, off] =>
    match g.toNat?, off.toNat? with
    | some g, some off =>
      let b := (List.replicate g (BOp.grow 8)).foldl BufS.step { storage := 0, capacity := 64 }
      match toArg { name := "obj", pointer := false, scalar := false, ctype := "KS" } (xobjNow b off) with
      | .ok (.ptr st o _) => (u, s!"ptr {st} {o}")
      | .ok _ => (u, "?")
      | .error e => (u, showErr e)
    | _, _ => (u, "bad-op")
  | ["nparr", cty, fo] =>
    match fo.toNat? with
    | some fo =>
      match toArg { name := "p", pointer := true, scalar := true, ctype := cty } (.nparr cty 0 fo) with
      | .ok (.ptr st o c) => (u, s!"ptr {st} {o} {c}")
      | .ok _ => (u, "?")
      | .error e => (u, showErr e)
    | none => (u, "bad-op")
  | ["xarr", cty, g, off, doff] =>
    match g.toNat?, off.toNat?, doff.toNat? with
    | some g, some off, some doff =>
      let b := (List.replicate g (BOp.grow 8)).foldl BufS.step { storage := 0, capacity := 64 }
      match toArg { name := "p", pointer := true, scalar := true, ctype := cty } (.xarr b.storage off doff cty) with
      | .ok (.ptr st o c) => (u, s!"ptr {st} {o} {c}")
      | .ok _ => (u, "?")
      | .error e => (u, showErr e)
    | _, _, _ => (u, "bad-op")
  | ["call", _, npos, names] =>
    match npos.toNat? with
    | some np =>
      let kw := if names == "-" then [] else (names.splitOn ",").map fun n => (n, dummy n)
      match call mixDecls np kw with
      | .ok outs => (u, s!"ok {outs.length}")
      | .error e => (u, showErr e)
    | none => (u, "bad-op")
  | _ => (u, "bad-op")
end Drv.KCallD
