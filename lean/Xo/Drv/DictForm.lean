import Xo.Model.DictForm
import Xo.Drv.Util
/-! line-protocol driver of the dictionary / JSON form model (component `dict`)

  univ <c0>;<c1>;…      class = `xo>py=K,…`   K: n<default> | a (array of dynamic shape: no default) | d<v>/<v>/… (array / text of dynamic size WITH a declared default; `d-`: empty) | z<n> (static array of n) | N<cls> | R<cls>
  todict <cls> <V>      → canonical dictionary (keys sorted)       V: `n<int>` | `a<int>/<int>/…` (`a-`: empty) | `_` | `(V V …)`
  rt <cls> <V>          → `same` | `differs <V'>`     (fromDict ∘ toDict)
  json <JT> <JV>        → canonical JSON;   JT: n | s | [JT] | {name:JT,…}    JV: n<int> | s<hex> | [JV,…] | {JV,…}
-/
namespace Drv.DictD
open DictF Drv

structure St where
  u : Universe := []
  arrs : List (Nat × String) := []        -- (class, python name) of the array-valued fields: printed as lists

def parseK (w : String) : Option FK :=
  if w.startsWith "n" then (w.drop 1).toInt?.map fun d => .num (some [d])
  else if w == "a" then some (.num none)
  else if w.startsWith "z" then (w.drop 1).toNat?.map fun n => .num (some (List.replicate n 0))
  else if w == "d-" then some (.num (some []))
  else if w.startsWith "d" then
    let ps := ((w.drop 1).toString.splitOn "/").map (·.toInt?)
    if ps.all (·.isSome) then some (.num (some (ps.filterMap id))) else none
  else if w.startsWith "N" then (w.drop 1).toNat?.map .obj
  else if w.startsWith "R" then (w.drop 1).toNat?.map .optobj
  else none

def parseCls (w : String) : Option Cls :=
  (if w == "" then some [] else (w.splitOn ",").mapM fun e =>
    match e.splitOn "=" with
    | [names, k] =>
      match names.splitOn ">", parseK k with
      | [xo, py], some k => some (xo, py, k)
      | _, _ => none
    | _ => none).map fun fs => { fields := fs }

/-- tiny S-expression reader for values -/
partial def parseV : List String → Option (V × List String)
 | "(" :: r =>
    let rec items (ts : List String) (acc : List V) : Option (V × List String) :=
      match ts with
      | ")" :: r => some (.obj acc.reverse, r)
      | _ => match parseV ts with
        | some (v, r) => items r (v :: acc)
        | none => none
    items r []
 | "_" :: r => some (.null, r)
 | t :: r =>
    if t.startsWith "n" then (t.drop 1).toInt?.map fun v => (.num [v], r)
    else if t == "a-" then some (.num [], r)
    else if t.startsWith "a" then
      let ps := ((t.drop 1).toString.splitOn "/").map (·.toInt?)
      if ps.all (·.isSome) then some (.num (ps.filterMap id), r) else none
    else none
 | [] => none

def toks (s : String) : List String :=
  ((s.replace "(" " ( ").replace ")" " ) ").splitOn " " |>.filter (· ≠ "")

def showNums (v : List Int) : String := "[" ++ ",".intercalate (v.map toString) ++ "]"

/-- `byXo`: the dictionary is keyed by xobject names (the full form stored for a reference) -/
partial def showD (st : St) (c : Nat) (byXo : Bool) : D → String
 | .num v => match v with | [x] => toString x | _ => showNums v
 | .none_ => "None"
 | .dict kv => "{" ++ ",".intercalate ((kv.map fun (k, d) =>
      let fld := (clsOf st.u c).fields.find? fun f => (if byXo then f.1 else f.2.1) == k
      let isArr := match fld with | some f => st.arrs.contains (c, f.2.1) | none => false
      let sub := match fld with
        | some (_, _, .obj c') => showD st c' byXo d
        | some (_, _, .optobj c') => showD st c' true d
        | _ => match d, isArr with
          | .num v, true => showNums v
          | _, _ => showD st c byXo d
      k ++ ":" ++ sub).mergeSort) ++ "}"

partial def showV : V → String
 | .num [v] => s!"n{v}"
 | .num v => "a" ++ (if v.isEmpty then "-" else "/".intercalate (v.map toString))
 | .null => "_"
 | .obj vs => "(" ++ " ".intercalate (vs.map showV) ++ ")"

/-! JSON: types `n` `s` `[T]` `{name:T,…}`; values `n<int>` `s<hex|->` `[V …]` `{V …}` (tokens separated by spaces) -/
partial def parseJT : List String → Option (JT × List String)
 | "n" :: r => some (.num, r)
 | "s" :: r => some (.str, r)
 | "[" :: r => match parseJT r with
    | some (t, "]" :: r') => some (.arr t, r')
    | _ => none
 | "{" :: r =>
    let rec fields (ts : List String) (acc : List (String × JT)) : Option (JT × List String) :=
      match ts with
      | "}" :: r => some (.struct acc.reverse, r)
      | name :: r => match parseJT r with
        | some (t, r') => fields r' ((name, t) :: acc)
        | none => none
      | [] => none
    fields r []
 | _ => none

partial def parseJV : List String → Option (JV × List String)
 | "[" :: r =>
    let rec items (ts : List String) (acc : List JV) : Option (JV × List String) :=
      match ts with
      | "]" :: r => some (.arr acc.reverse, r)
      | _ => match parseJV ts with
        | some (v, r) => items r (v :: acc)
        | none => none
    items r []
 | "{" :: r =>
    let rec sitems (ts : List String) (acc : List JV) : Option (JV × List String) :=
      match ts with
      | "}" :: r => some (.struct acc.reverse, r)
      | _ => match parseJV ts with
        | some (v, r) => sitems r (v :: acc)
        | none => none
    sitems r []
 | t :: r =>
    if t.startsWith "n" then (t.drop 1).toInt?.map fun v => (.num v, r)
    else if t.startsWith "s" then (unhex (t.drop 1).toString).map fun bs => (.str bs, r)
    else none
 | [] => none

partial def showJ : J → String
 | .num v => toString v
 | .str bs => "\"" ++ hexOf bs ++ "\""
 | .list xs => "[" ++ ",".intercalate (xs.map showJ) ++ "]"
 | .dict kv => "{" ++ ",".intercalate (kv.map fun (k, d) => k ++ ":" ++ showJ d) ++ "}"

partial def showJV : JV → String
 | .num v => s!"n{v}"
 | .str bs => "s" ++ (if bs.isEmpty then "-" else hexOf bs)
 | .arr xs => "[ " ++ " ".intercalate (xs.map showJV) ++ " ]"
 | .struct xs => "{ " ++ " ".intercalate (xs.map showJV) ++ " }"

def restAfter (line : String) (n : Nat) : String :=
  " ".intercalate ((line.trimAscii.toString.splitOn " ").drop n)

def step (s : St) (line : String) : St × String :=
  match words line with
  | ["univ", spec] =>
    match (spec.splitOn ";").mapM parseCls with
    | some u =>
      let arrs := ((spec.splitOn ";").zipIdx.flatMap fun (w, ci) =>
        (w.splitOn ",").filterMap fun e =>
          match e.splitOn "=" with
          | [names, k] => if k == "a" || k.startsWith "z" || k.startsWith "d" then (names.splitOn ">")[1]?.map fun py => (ci, py) else none
          | _ => none)
      ({ u, arrs }, "ok")
    | none => (s, "bad-op")
  | "todict" :: c :: _ =>
    match c.toNat?, parseV (toks (restAfter line 2)) with
    | some c, some (v, _) => (s, showD s c false (toDict s.u 16 c v))
    | _, _ => (s, "bad-op")
  | "rt" :: c :: _ =>
    match c.toNat?, parseV (toks (restAfter line 2)) with
    | some c, some (v, _) =>
      let v' := fromDict s.u 16 c (toDict s.u 16 c v)
      (s, if showV v' == showV v then "same" else "differs " ++ showV v')
    | _, _ => (s, "bad-op")
  | "json" :: _ =>
    -- `json <T tokens> | <V tokens>`: the JSON form and whether the constructor dispatch rebuilds the value
    let ts := (restAfter line 1).splitOn " | "
    match ts with
    | [tt, vv] =>
      match parseJT ((tt.splitOn " ").filter (· ≠ "")), parseJV ((vv.splitOn " ").filter (· ≠ "")) with
      | some (t, _), some (v, _) =>
        let j := toJson t v
        let back := match ofJson t j with
          | some v' => if showJV v' == showJV v then "same" else "differs"
          | none => "none"
        (s, showJ j ++ " " ++ back)
      | _, _ => (s, "bad-op")
    | _ => (s, "bad-op")
  | _ => (s, "bad-op")
end Drv.DictD
