import Xo.Model.CSem
import Xo.Drv.Util
/-! line-protocol driver for the C generator (component `capi`)

  gen <sexp>                       → the generated API source of the type, newlines as `\n`
  type <sexp>                      → `ok <n accessors>`; sets the current type
  mem <hex>                        → `ok <len>`; sets the current buffer image
  ev <funName> <obj> <i0> <i1> …   → `addr <a> <w>` | `val <v>` | `none`   (semantics `CFun.eval`, loads from the image)
  funs                             → names of all accessors of the current type
  acc <funName> <obj> <i0> …       → `acc a:w a:w …` every memory access (absolute address in the image, width)
-/
namespace Drv.CApiD
open CGen Drv

structure St where
  ty : Option Ty := none
  funs : List (String × CFun) := []
  mem : Array UInt8 := #[]

def init : St := {}

/-- the int64 at byte address `a` of the image (0 outside it) -/
def ldOf (m : Array UInt8) (a : Int) : Int :=
  if a < 0 then 0 else
  let o := a.toNat
  if o + 8 > m.size then 0 else
  let u := (List.range 8).foldl (fun acc i => acc + (m.getD (o + i) 0).toNat * 256 ^ i) 0
  if u ≥ 2 ^ 63 then (u : Int) - 2 ^ 64 else (u : Int)

def esc (s : String) : String := s.replace "\n" "\\n"

def restAfter (line : String) (n : Nat) : String :=
  " ".intercalate ((line.trimAscii.toString.splitOn " ").drop n)

def step (s : St) (line : String) : St × String :=
  match words line with
  | "gen" :: _ =>
    match parseTy (restAfter line 1) with
    | some t => (s, esc (genCode t))
    | none => (s, "bad-op")
  | "type" :: _ =>
    match parseTy (restAfter line 1) with
    | some t =>
      let fs := (allFuns t).map fun f => (f.name, f)
      ({ s with ty := some t, funs := fs }, s!"ok {fs.length}")
    | none => (s, "bad-op")
  | ["mem", h] =>
    match unhex h with
    | some bs => ({ s with mem := bs.toArray }, s!"ok {bs.length}")
    | none => (s, "bad-op")
  | ["funs"] => (s, " ".intercalate (s.funs.map (·.1)))
  | "ev" :: fn :: obj :: idx =>
    match s.funs.lookup fn, obj.toInt?, idx.mapM (·.toInt?) with
    | some f, some o, some ix =>
      match f.eval (ldOf s.mem) o ix with
      | .addr a w => (s, s!"addr {a} {w}")
      | .val v => (s, s!"val {v}")
      | .none => (s, "none")
    | _, _, _ => (s, "bad-op")
  | "acc" :: fn :: obj :: idx =>
    match s.funs.lookup fn, obj.toInt?, idx.mapM (·.toInt?) with
    | some f, some o, some ix =>
      (s, "acc " ++ " ".intercalate ((f.accesses (ldOf s.mem) o ix).map fun (a, w) => s!"{a}:{w}"))
    | _, _, _ => (s, "bad-op")
  | _ => (s, "bad-op")
end Drv.CApiD
