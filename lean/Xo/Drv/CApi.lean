import Xo.Model.CSem
import Xo.Model.CPath
import Xo.Drv.Util
/-! line-protocol driver for the C generator (component `capi`)

  gen <sexp>                       → the generated API source of the type, newlines as `\n`
  type <sexp>                      → `ok <n accessors>`; sets the current type
  mem <hex>                        → `ok <len>`; sets the current buffer image
  ev <funName> <obj> <i0> <i1> …   → `addr <a> <w>` | `val <v>` | `none`   (semantics `CFun.eval`, loads from the image)
  funs                             → names of all accessors of the current type
  acc <funName> <obj> <i0> …       → `acc a:w a:w …` every memory access (absolute address in the image, width)
-/
namespace Drv.CApiD
open CGen Drv

structure St where
  ty : Option Ty := none
  funs : List (String × CFun) := []
  mem : Array UInt8 := #[]

def init : St := {}

/-- the int64 at byte address `a` of the image (0 outside it) -/
def ldOf (m : Array UInt8) (a : Int) : Int :=
  if a < 0 then 0 else
  let o := a.toNat
  if o + 8 > m.size then 0 else
  let u := (List.range 8).foldl (fun acc i => acc + (m.getD (o + i) 0).toNat * 256 ^ i) 0
  if u ≥ 2 ^ 63 then (u : Int) - 2 ^ 64 else (u : Int)

/-- the selector path of a reference-free access path of the generator (field numbers; index parts without their indices) -/
def selsOf : List Part → Option Ty → Option (List Lay.Sel)
 | [], _ => some []
 | .ty (.ref _) :: _, _ => none
 | .ty (.unionref ..) :: _, _ => none
 | .ty t :: ps, _ => selsOf ps (some t)
 | .field n _ _ :: ps, some (.struct _ fs) =>
    let k := fs.findIdx (·.1 == n)
    if k < fs.length then (selsOf ps none).map (Lay.Sel.field k :: ·) else none
 | .index _ :: ps, _ => (selsOf ps none).map (Lay.Sel.item [] :: ·)
 | _, _ => none

/-- `cparts` (the subject of the path theorem) builds exactly the access paths the generator emits accessors for -/
def cpartsAgrees (t : Ty) (fs : List (String × CFun)) : Option String :=
  fs.findSome? fun (n, f) =>
    match selsOf f.path none with
    | none => none                                   -- a path through a reference: outside the theorem
    | some sels =>
      match Lay.cparts t sels with
      | some (ps, _) => if toString (repr ps) == toString (repr f.path) then none else some n
      | none => some n

def esc (s : String) : String := s.replace "\n" "\\n"

def restAfter (line : String) (n : Nat) : String :=
  " ".intercalate ((line.trimAscii.toString.splitOn " ").drop n)

def step (s : St) (line : String) : St × String :=
  match words line with
  | "gen" :: _ =>
    match parseTy (restAfter line 1) with
    | some t => (s, esc (genCode t))
    | none => (s, "bad-op")
  | "type" :: _ =>
    match parseTy (restAfter line 1) with
    | some t =>
      let fs := (allFuns t).map fun f => (f.name, f)
      match cpartsAgrees t fs with
      | some bad => ({ s with ty := some t, funs := fs }, s!"PROOF-MODEL-DIFFERS cparts {bad}")
      | none => ({ s with ty := some t, funs := fs }, s!"ok {fs.length}")
    | none => (s, "bad-op")
  | ["mem", h] =>
    match unhex h with
    | some bs => ({ s with mem := bs.toArray }, s!"ok {bs.length}")
    | none => (s, "bad-op")
  | ["funs"] => (s, " ".intercalate (s.funs.map (·.1)))
  | "ev" :: fn :: obj :: idx =>
    match s.funs.lookup fn, obj.toInt?, idx.mapM (·.toInt?) with
    | some f, some o, some ix =>
      match f.eval (ldOf s.mem) o ix with
      | .addr a w => (s, s!"addr {a} {w}")
      | .val v => (s, s!"val {v}")
      | .none => (s, "none")
    | _, _, _ => (s, "bad-op")
  | "acc" :: fn :: obj :: idx =>
    match s.funs.lookup fn, obj.toInt?, idx.mapM (·.toInt?) with
    | some f, some o, some ix =>
      (s, "acc " ++ " ".intercalate ((f.accesses (ldOf s.mem) o ix).map fun (a, w) => s!"{a}:{w}"))
    | _, _, _ => (s, "bad-op")
  | _ => (s, "bad-op")
end Drv.CApiD
