import Xo.LayH
import Xo.Drv.Util
/-! line-protocol driver of the executable heap model (component `heap`): several buffers in contexts, existing objects as values

  reset | buf <cap> <align> <ctx> | alloc <buf> <n> | grow <buf> <n> | type <name> <sexp>
  new <type> <handle> <buf> <value>     value may contain (obj <handle>): copy construction / reference to an existing object
  bind <handle> <path> <value>          assignment to a reference slot
  set <handle> <path> <value>           assignment to any slot (as in the `lay` component)
  deep <handle>                         canonical deep value
-/
namespace Drv.HeapD
open CGen LayM
structure St where
  types : List (String × Ty) := []
  objs : List (String × (Nat × Ty × Nat)) := []
  heap : Heap := { bufs := #[], ctxs := #[] }
partial def hvOfS (objs : List (String × (Nat × Ty × Nat))) : SExp → Option HV
 | .list [.atom "obj", .atom n] => (objs.lookup n).map fun (b, t, o) => HV.view b t o
 | .list (.atom "dict" :: fs) => do
    let l ← fs.mapM fun | .list [.atom n, v] => (hvOfS objs v).map fun vv => (n, vv) | _ => none
    pure (.dict l)
 | .list (.atom "list" :: xs) => do pure (.list (← xs.mapM (hvOfS objs)))
 | .list [.atom "tagged", .atom n, v] => (hvOfS objs v).map (.tagged n)
 | e => (vinOfS e).map .plain
def mems (h : Heap) : String := " ".intercalate (h.bufs.toList.map fun b => s!"{b.alloc.capacity}:{LayM.hexOf b.mem}")
def parsePath (s : String) : List Step :=
  if s == "-" then [] else
  (s.splitOn "/").filterMap fun seg =>
    match seg.splitOn ":" with
    | ["f", n] => some (Step.field n)
    | ["i", is] => some (Step.item ((is.splitOn ",").filterMap String.toInt?))
    | _ => none
def step (s : St) (line : String) : St × String :=
  let l := line.trimAscii.toString
  match l.splitOn " " with
  | ["reset"] => ({ s with objs := [], heap := { bufs := #[], ctxs := #[] } }, "ok")
  | ["buf", cap, al, ctx] =>
    match cap.toNat?, al.toNat?, ctx.toNat? with
    | some c, some a, some x =>
      let b : Buf := { alloc := { capacity := c, chunks := [⟨0, c⟩], align := a, growStep := none }, mem := Array.replicate c 165 }
      ({ s with heap := { bufs := s.heap.bufs.push b, ctxs := s.heap.ctxs.push x } }, s!"ok {s.heap.bufs.size}")
    | _, _, _ => (s, "bad-op")
  | ["alloc", bi, n] =>
    match bi.toNat?, n.toNat? with
    | some bi, some k => let (o, b) := allocate (getBuf s.heap bi) k; ({ s with heap := setBuf s.heap bi b }, s!"off {o}")
    | _, _ => (s, "bad-op")
  | "type" :: name :: rest =>
    match parseTy (" ".intercalate rest) with
    | some t => ({ s with types := (name, t) :: s.types }, "ok")
    | none => (s, "bad-type")
  | "new" :: tname :: hname :: bi :: rest =>
    match s.types.lookup tname, bi.toNat?, (parseS (tokenize (" ".intercalate rest))).bind (fun x => hvOfS s.objs x.1) with
    | some t, some bi, some v =>
      let (o, h) := hConstruct t v bi s.heap
      ({ s with heap := h, objs := (hname, (bi, t, o)) :: s.objs }, s!"off {o} mems {mems h}")
    | _, _, _ => (s, "bad-op")
  | "bind" :: hname :: path :: rest =>
    match s.objs.lookup hname, (parseS (tokenize (" ".intercalate rest))).bind (fun x => hvOfS s.objs x.1) with
    | some (bi, t, o), some v =>
      match follow (getBuf s.heap bi).mem t o (parsePath path) with
      | .ok (tt, a) => let h := hToBuffer tt v bi a s.heap; ({ s with heap := h }, s!"ok mems {mems h}")
      | .error e => (s, s!"err {e.str}")
    | _, _ => (s, "bad-op")
  | ["grow", bi, n] =>
    match bi.toNat?, n.toNat? with
    | some bi, some k =>
      let b := getBuf s.heap bi
      let a' := Alloc.grow b.alloc k
      let b' : Buf := { alloc := a', mem := b.mem ++ Array.replicate (a'.capacity - b.mem.size) 0 }
      ({ s with heap := setBuf s.heap bi b' }, s!"ok mems {mems (setBuf s.heap bi b')}")
    | _, _ => (s, "bad-op")
  | "set" :: hname :: path :: rest =>
    match s.objs.lookup hname, (parseS (tokenize (" ".intercalate rest))).bind (fun x => vinOfS x.1) with
    | some (bi, t, o), some v =>
      match follow (getBuf s.heap bi).mem t o (parsePath path) with
      | .ok (tt, a) =>
        let (b, e) := assign tt a v (getBuf s.heap bi)
        let h := setBuf s.heap bi b
        ({ s with heap := h }, (match e with | none => "ok" | some e => s!"err {e.str}") ++ s!" mems {mems h}")
      | .error e => (s, s!"err {e.str} mems {mems s.heap}")
    | _, _ => (s, "bad-op")
  | "upd" :: hname :: path :: rest =>
    -- assignment of a value that may be an existing object: `upd <handle> <path> (obj <name>)`
    match s.objs.lookup hname, (parseS (tokenize (" ".intercalate rest))).bind (fun x => hvOfS s.objs x.1) with
    | some (bi, t, o), some v =>
      match follow (getBuf s.heap bi).mem t o (parsePath path) with
      | .ok (tt, a) =>
        let (h, e) := hAssign tt v bi a s.heap
        ({ s with heap := h }, (match e with | none => "ok" | some e => s!"err {e.str}") ++ s!" mems {mems h}")
      | .error e => (s, s!"err {e.str} mems {mems s.heap}")
    | _, _ => (s, "bad-op")
  | ["deep", hname] =>
    match s.objs.lookup hname with
    | some (bi, t, o) => (s, s!"val {deep (getBuf s.heap bi).mem t o}")
    | none => (s, "bad-op")
  | _ => (s, "bad-op")

def init : St := {}
end Drv.HeapD
