import Xo.Model.Topo
import Xo.Drv.Util
/-! line-protocol driver for the dependency sorter (component `topo`) -/
namespace Drv.TopoD
open Topo Drv

def natList (s : String) : Option (List Nat) :=
  if s == "" then some [] else (s.splitOn ",").mapM (·.toNat?)

/-- `c:p,p;c:;…` -/
def parseSrc (s : String) : Option Source :=
  if s == "-" then some [] else
  (s.splitOn ";").mapM fun e =>
    match e.splitOn ":" with
    | [c, ps] => match c.toNat?, natList ps with
      | some c, some ps => some (c, ps)
      | _, _ => none
    | _ => none

def showL (l : List Nat) : String := ",".intercalate (l.map toString)

/-- `id:deps:api;…` -/
def parseUniv (s : String) : Option (List (Nat × List Nat × Bool)) :=
  if s == "-" then some [] else
  (s.splitOn ";").mapM fun e =>
    match e.splitOn ":" with
    | [c, ds, api] => match c.toNat?, natList ds with
      | some c, some ds => some (c, ds, api == "1")
      | _, _ => none
    | _ => none

def step (u : Unit) (line : String) : Unit × String :=
  match words line with
  | ["topo", src] =>
    match parseSrc src with
    | some s => match topoF (s.length + (s.flatMap (·.2)).length + 1) s with
      | some (order, cyc) => (u, s!"order {showL order} cycle {cyc}")
      | none => (u, "err fuel")
    | none => (u, "bad-op")
  | ["sortc", roots, univ] =>
    match natList roots, parseUniv univ with
    | some rs, some us =>
      let U : Universe := { depsOf := fun c => ((us.lookup c).map (·.1)).getD [],
                            hasApi := fun c => ((us.lookup c).map (·.2)).getD false }
      match sortClasses U (us.length + rs.length + 1) rs with
      | some (some order) => (u, s!"order {showL order}")
      | some none => (u, "cycle")
      | none => (u, "err fuel")
    | _, _ => (u, "bad-op")
  | ["kcls", args, ret] =>
    let pr (w : String) : Option (Nat × Bool) := match w.splitOn ":" with
      | [c, a] => c.toNat?.map fun c => (c, a == "1")
      | _ => none
    match (if args == "-" then some [] else (args.splitOn ",").mapM pr), (if ret == "-" then some none else (pr ret).map some) with
    | some as, some rt =>
      let l := (kernelClasses as rt).mergeSort.eraseDups
      (u, "classes " ++ showL l)
    | _, _ => (u, "bad-op")
  | _ => (u, "bad-op")
end Drv.TopoD
