import Xo.Model.Pickle
import Xo.Drv.Util
/-! line-protocol driver of the pickle model (component `pk`)

  rt <nbufs> <buf:off:ty,…>     → `bufs <n'> handles <buf:off:ty,…>`   (pickle.loads(pickle.dumps(handles)))
-/
namespace Drv.PkD
open Pk Drv

def step (u : Unit) (line : String) : Unit × String :=
  match words line with
  | ["rt", n, hs] =>
    match n.toNat?, (if hs == "-" then some [] else (hs.splitOn ",").mapM fun w =>
        match w.splitOn ":" with
        | [b, o, t] => match b.toNat?, o.toNat?, t.toNat? with
          | some b, some o, some t => some ({ buf := b, off := o, ty := t } : Handle)
          | _, _, _ => none
        | _ => none) with
    | some n, some hl =>
      let H : Heap := { bufs := List.replicate n ⟨Alloc.init 0 1 none, []⟩ }
      let (H', out) := roundtrip H hl
      (u, s!"bufs {H'.bufs.length} handles " ++ ",".intercalate (out.map fun h => s!"{h.buf}:{h.off}:{h.ty}"))
    | _, _ => (u, "bad-op")
  | _ => (u, "bad-op")
end Drv.PkD
