import Xo.LayR
import Xo.Model.Layout
import Xo.Model.Path
import Xo.Model.Index
import Xo.Model.ToLay
/-! glue between the protocol's types/values (names, index order, input forms) and the proof model `Lay`
(positional fields, memory order, canonical values); used by the `lay` driver so that the proof model's own
definitions are executed against the implementation on every reference-free case -/
namespace Drv.LayP
open CGen

/-- reference-free types have a proof-model counterpart: the total translation the link theorems are about -/
def tyP (t : CGen.Ty) : Option Lay.Ty := Lay.toLay t

/-- the canonical proof-model value of an input form: fields by position, array items in memory order -/
partial def valP (t : CGen.Ty) (v : LayM.VIn) : Option Lay.Val :=
  match t, v with
  | .scalar _, .bits b => some (.bits b)
  | .string, .str bs => some (.str bs)
  | .string, .cap n => some (.cap n)
  | .struct _ fs, .dict d => (fs.mapM fun (n, ft) => (d.lookup n).bind (valP ft)).map .struct
  | .array it shp ord, v =>
    let ai := arrInfo it shp ord
    let shape : List Nat := if ai.staticShape then shp.map (·.getD 0) else LayM.shapeOf v shp.length
    let idxs := LayM.iterIndex shape ord
    (idxs.mapM fun idx => valP it (LayM.elemAt v shape idx)).map (.arr shape)
  | _, _ => none

/-- canonical deep-value string (index order) of a proof-model value, the format of `LayM.deep` -/
partial def showP (t : CGen.Ty) (v : Lay.Val) : String :=
  match t, v with
  | .scalar _, .bits b => s!"b{b}"
  | .string, .str bs => s!"s{LayM.hexBytes bs}"
  | .struct _ fs, .struct vs =>
    "{" ++ ",".intercalate ((fs.zip vs).map fun ((n, ft), fv) => s!"{n}={showP ft fv}") ++ "}"
  | .array it _ ord, .arr shape items =>
    let idxs := LayM.ndindex shape
    let strs := idxs.map fun idx => showP it (items.getD (Lay.mposL shape ord idx) default)
    "[" ++ " ".intercalate (shape.map toString) ++ "|" ++ ",".intercalate strs ++ "]"
  | _, _ => "?"

/-- a protocol path (field names, item indices in index order) as part indices of the proof model (field position, memory position) -/
partial def pathP (t : CGen.Ty) (v : Lay.Val) : List LayM.Step → Option (List Nat)
 | [] => some []
 | .field n :: r =>
    match t, v with
    | .struct _ fs, .struct vs =>
      let k := fs.findIdx (·.1 == n)
      match fs[k]? with
      | some (_, ft) => (pathP ft (vs.getD k default) r).map (k :: ·)
      | none => none
    | _, _ => none
 | .item idx :: r =>
    match t, v with
    | .array it _ ord, .arr shape items =>
      let k := Lay.mposL shape ord (idx.map Int.toNat)      -- the definition the index theorems are about
      (pathP it (items.getD k default) r).map (k :: ·)
    | _, _ => none

/-- run the proof model's writer: the buffer image after `apply (shift off (patchesD t v))` -/
def writeP (t : Lay.Ty) (v : Lay.Val) (off : Nat) (mem : LayM.Mem) : List UInt8 :=
  Lay.apply (Lay.shift off (Lay.patchesD t v)) mem.toList

end Drv.LayP
