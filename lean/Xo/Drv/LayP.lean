import Xo.LayR
import Xo.Model.Layout
import Xo.Model.Path
import Xo.Model.Index
import Xo.Model.ToLay
/-! glue between the protocol's types/values (names, index order, input forms) and the proof model `Lay`
(positional fields, memory order, canonical values); used by the `lay` driver so that the proof model's own
definitions are executed against the implementation on every reference-free case -/
namespace Drv.LayP
open CGen

/-- reference-free types have a proof-model counterpart: the total translation the link theorems are about -/
def tyP (t : CGen.Ty) : Option Lay.Ty := Lay.toLay t

/-- the canonical proof-model value of an input form: fields by position, array items in memory order -/
partial def valP (t : CGen.Ty) (v : LayM.VIn) : Option Lay.Val :=
  match t, v with
  | .scalar _, .bits b => some (.bits b)
  | .string, .str bs => some (.str bs)
  | .string, .cap n => some (.cap n)
  | .struct _ fs, .dict d => (fs.mapM fun (n, ft) => (d.lookup n).bind (valP ft)).map .struct
  | .array it shp ord, v =>
    let ai := arrInfo it shp ord
    let shape : List Nat := if ai.staticShape then shp.map (·.getD 0) else LayM.shapeOf v shp.length
    let idxs := LayM.iterIndex shape ord
    (idxs.mapM fun idx => valP it (LayM.elemAt v shape idx)).map (.arr shape)
  | _, _ => none

/-- canonical deep-value string (index order) of a proof-model value, the format of `LayM.deep` -/
partial def showP (t : CGen.Ty) (v : Lay.Val) : String :=
  match t, v with
  | .scalar _, .bits b => s!"b{b}"
  | .string, .str bs => s!"s{LayM.hexBytes bs}"
  | .struct _ fs, .struct vs =>
    "{" ++ ",".intercalate ((fs.zip vs).map fun ((n, ft), fv) => s!"{n}={showP ft fv}") ++ "}"
  | .array it _ ord, .arr shape items =>
    let idxs := LayM.ndindex shape
    let strs := idxs.map fun idx => showP it (items.getD (Lay.mposL shape ord idx) default)
    "[" ++ " ".intercalate (shape.map toString) ++ "|" ++ ",".intercalate strs ++ "]"
  | _, _ => "?"

/-- a protocol path (field names, item indices in index order) as part indices of the proof model (field position, memory position) -/
partial def pathP (t : CGen.Ty) (v : Lay.Val) : List LayM.Step → Option (List Nat)
 | [] => some []
 | .field n :: r =>
    match t, v with
    | .struct _ fs, .struct vs =>
      let k := fs.findIdx (·.1 == n)
      match fs[k]? with
      | some (_, ft) => (pathP ft (vs.getD k default) r).map (k :: ·)
      | none => none
    | _, _ => none
 | .item idx :: r =>
    match t, v with
    | .array it _ ord, .arr shape items =>
      let k := Lay.mposL shape ord (idx.map Int.toNat)      -- the definition the index theorems are about
      (pathP it (items.getD k default) r).map (k :: ·)
    | _, _ => none

/-- run the proof model's writer: the buffer image after `apply (shift off (patchesD t v))` -/
def writeP (t : Lay.Ty) (v : Lay.Val) (off : Nat) (mem : LayM.Mem) : List UInt8 :=
  Lay.apply (Lay.shift off (Lay.patchesD t v)) mem.toList

/-- as `valP`, for every type: a reference word is blank (its content depends on where referent and slot were placed) -/
partial def valPR (t : CGen.Ty) (v : LayM.VIn) : Option Lay.Val :=
  match t, v with
  | .ref _, _ => some (.bits 0)
  | .unionref _ _, _ => some (.bits 0)
  | .scalar _, .bits b => some (.bits b)
  | .string, .str bs => some (.str bs)
  | .string, .cap n => some (.cap n)
  | .struct _ fs, .dict d => (fs.mapM fun (n, ft) => (d.lookup n).bind (valPR ft)).map .struct
  | .array it shp ord, v =>
    let ai := arrInfo it shp ord
    let shape : List Nat := if ai.staticShape then shp.map (·.getD 0) else LayM.shapeOf v shp.length
    let idxs := LayM.iterIndex shape ord
    (idxs.mapM fun idx => valPR it (LayM.elemAt v shape idx)).map (.arr shape)
  | _, _ => none

/-- the proof model on the REAL bytes of an object that holds references (reference slots as opaque words, `toLayR`): the value is
the one the object was constructed from, with the reference words - whose content depends on where slot and referent were placed -
read from the bytes by the proof model's reader.  Its size, the image the proof model's WRITER produces for it (must leave the real
bytes as they are: every header word, offset, string, scalar and padding byte where the library put it) and every non-reference leaf
its READER decodes must agree with the executable model -/
def checkRefObject (t : CGen.Ty) (v : LayM.VIn) (mem : LayM.Mem) (o size : Nat) : Option String :=
  let tp := Lay.toLayR t
  let m := mem.toList
  let vr := Lay.readD tp m o
  match valPR t v with
  | some vin =>
    let vp := Lay.fillRefs t vin vr
    if Lay.vsize tp vp != size then some s!"PROOF-MODEL-DIFFERS refs-size {Lay.vsize tp vp}"
    else if Lay.apply (Lay.shift o (Lay.patchesD tp vp)) m != m then some "PROOF-MODEL-DIFFERS refs-bytes"
    else if showP t (Lay.maskRefs t vr) != showP t (Lay.maskRefs t vin.norm) then
      some s!"PROOF-MODEL-DIFFERS refs-read {showP t (Lay.maskRefs t vr)}"
    else none
  | none => none

end Drv.LayP
