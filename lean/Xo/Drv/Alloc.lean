import Xo.Model.Alloc
import Xo.Model.Mem
import Xo.Drv.Util
/-! line-protocol driver for the allocator model (component `alloc`) -/
namespace Drv.AllocD
open Alloc Drv

def showChunks (cs : List Chunk) : String :=
  " ".intercalate (cs.map fun c => s!"{c.start}:{c.stop}")

def showState (b : Buf) : String :=
  s!"cap {b.a.capacity} free {getFree b.a} chunks [{showChunks b.a.chunks}] sum {cksum b.mem}"

def init : Buf := { a := { capacity := 0, chunks := [], align := 1, growStep := none }, mem := [] }

def step (b : Buf) (line : String) : Buf × String :=
  match words line with
  | ["new", cap, al, gs] =>
    match cap.toNat?, al.toNat? with
    | some c, some a =>
      let b' : Buf := { a := Alloc.init c a gs.toNat?, mem := List.replicate c 0 }
      (b', s!"ok {showState b'}")
    | _, _ => (b, "bad-op")
  | ["alloc", n, al] =>
    match n.toNat? with
    | some k =>
      match b.allocate k (al == "aligned") with
      | some (o, b') => (b', s!"off {o} {showState b'}")
      | none => (b, "err fuel")
    | none => (b, "bad-op")
  | ["free", o, n] =>
    match o.toNat?, n.toNat? with
    | some o, some n => let b' := b.free o n; (b', s!"ok {showState b'}")
    | _, _ => (b, "bad-op")
  | ["grow", n] =>
    match n.toNat? with
    | some k => let b' := b.grow k; (b', s!"ok {showState b'}")
    | none => (b, "bad-op")
  | ["write", o, hx] =>
    match o.toNat?, unhex hx with
    | some o, some bs =>
      if o + bs.length ≤ b.mem.length then
        let b' := { b with mem := MemS.writeAt b.mem o bs }; (b', s!"ok {showState b'}")
      else (b, "err range")
    | _, _ => (b, "bad-op")
  | ["dump"] => (b, s!"mem {hexOf b.mem}")
  | _ => (b, "bad-op")
end Drv.AllocD
