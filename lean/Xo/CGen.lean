namespace CGen
/-! Port of xobjects/capi.py text generation, through the statement IR `Stmt` whose semantics is in Xo/Model/CSem.lean. -/

inductive Scalar | f64 | f32 | i64 | u64 | i32 | u32 | i16 | u16 | i8 | u8
deriving Repr, DecidableEq, Inhabited

def Scalar.size : Scalar → Nat
 | .f64 | .i64 | .u64 => 8
 | .f32 | .i32 | .u32 => 4
 | .i16 | .u16 => 2
 | .i8 | .u8 => 1
def Scalar.pyName : Scalar → String
 | .f64 => "Float64" | .f32 => "Float32" | .i64 => "Int64" | .u64 => "Uint64" | .i32 => "Int32"
 | .u32 => "Uint32" | .i16 => "Int16" | .u16 => "Uint16" | .i8 => "Int8" | .u8 => "Uint8"
def Scalar.cType : Scalar → String
 | .f64 => "double" | .f32 => "float" | .i64 => "int64_t" | .u64 => "uint64_t" | .i32 => "int32_t"
 | .u32 => "uint32_t" | .i16 => "int16_t" | .u16 => "uint16_t" | .i8 => "int8_t" | .u8 => "uint8_t"

inductive Ty where
 | scalar (s : Scalar)
 | string
 | struct (name : String) (fields : List (String × Ty))
 | array (item : Ty) (shape : List (Option Nat)) (order : List Nat)
 | ref (target : Ty)
 | unionref (name : String) (members : List Ty)
deriving Repr, Inhabited

def slot (n : Nat) : Nat := (n + 7) / 8 * 8

def suffixLetters : List Char := "NMOPQRSTUVWXYZABCDEFGHIJKLM".toList
def getSuffix (shape : List (Option Nat)) : String :=
  let rec go (sh : List (Option Nat)) (i : Nat) : List String :=
    match sh with
    | [] => []
    | none :: r => String.singleton (suffixLetters.getD i 'N') :: go r ((i + 1) % suffixLetters.length)
    | some d :: r => toString d :: go r i
  "x".intercalate (go shape 0)

mutual
def Ty.name : Ty → String
 | .scalar s => s.pyName
 | .string => "String"
 | .struct n _ => n
 | .array it sh _ => "Arr" ++ getSuffix sh ++ it.name
 | .ref t => "Ref" ++ t.name
 | .unionref n _ => n
end

mutual
def Ty.ssize : Ty → Option Nat
 | .scalar s => some s.size
 | .string => none
 | .struct _ fs => fieldsSize fs
 | .array it shape _ =>
    match it.ssize, shape.mapM id with
    | some n, some dims => some (slot (dims.foldl (· * ·) n))
    | _, _ => none
 | .ref _ => some 8
 | .unionref _ _ => some 16
def fieldsSize : List (String × Ty) → Option Nat
 | [] => some 0
 | (_, t) :: fs => match t.ssize, fieldsSize fs with
    | some a, some b => some (slot a + b)
    | _, _ => none
end

def Ty.cType (t : Ty) : String := match t with
 | .scalar s => s.cType
 | .string => "char*"
 | _ => t.name

def Ty.isScalar : Ty → Bool | .scalar _ => true | _ => false
def Ty.isString : Ty → Bool | .string => true | _ => false
def Ty.isCompound : Ty → Bool | .struct .. => true | .array .. => true | .unionref .. => true | _ => false
def Ty.isArray : Ty → Bool | .array .. => true | _ => false
def Ty.isUnion : Ty → Bool | .unionref .. => true | _ => false

/-- class-level field layout of a struct: (offset, isReference) per field in declaration order -/
def fieldLayout (fs : List (String × Ty)) : List (Nat × Bool) :=
  match fieldsSize fs with
  | some _ =>
    let rec go (l : List (String × Ty)) (o : Nat) : List (Nat × Bool) :=
      match l with
      | [] => []
      | (_, t) :: r => (o, false) :: go r (o + slot (t.ssize.getD 0))
    go fs 0
  | none =>
    let statics := fs.filter fun f => f.2.ssize.isSome
    let sbytes := (statics.map fun f => slot (f.2.ssize.getD 0)).sum
    let ndyn := (fs.filter fun f => f.2.ssize.isNone).length
    let sb := 8 + sbytes
    let d0 := sb + 8 * (ndyn - 1)
    let rec goD (l : List (String × Ty)) (so k : Nat) : List (Nat × Bool) :=
      match l with
      | [] => []
      | (_, t) :: r =>
        match t.ssize with
        | some s => (so, false) :: goD r (so + slot s) k
        | none => (if k = 0 then (d0, false) else (sb + 8 * (k - 1), true)) :: goD r so (k + 1)
    goD fs 8 0

inductive Part where
 | ty (t : Ty)
 | field (name : String) (off : Nat) (isRef : Bool)
 | index (arr : Ty)
deriving Repr, Inhabited

partial def dataPaths (t : Ty) (base : List Part) : List (List Part) :=
  match t with
  | .scalar _ | .string | .unionref .. => [base ++ [.ty t]]
  | .struct _ fs =>
    let lay := fieldLayout fs
    [base ++ [.ty t]] ++ (fs.zip lay).flatMap fun ((n, ft), (o, r)) =>
      let path := base ++ [.ty t, .field n o r]
      [path] ++ dataPaths ft path
  | .array it _ _ =>
    let path := base ++ [.ty t, .index t]
    [base ++ [.ty t], path] ++ dataPaths it path
  | .ref tt => [base ++ [.ty t]] ++ dataPaths tt (base ++ [.ty t])

def gpumem := "/*gpuglmem*/"
def restrictQ := "/*restrict*/"
def gpufun := "/*gpufun*/"
def charP := gpumem ++ "char*"
def intP := gpumem ++ "int64_t*"
def intFromObj (off : String) : String := s!"*({intP})(({charP}) obj+{off})"

/-- get_strides / get_c_strides for static shapes -/
def cStrides (shape : List Nat) (item : Nat) : List Nat :=
  (shape.foldr (fun d (acc : List Nat × Nat) => (acc.2 :: acc.1, acc.2 * d)) ([], item)).1
def getStrides (shape order : List Nat) (item : Nat) : List Nat :=
  let cshape := order.map fun io => shape.getD io 0
  let cs := cStrides cshape item
  (List.range order.length).map fun ii => cs.getD (order.idxOf ii) 0

structure ArrInfo where
  nd : Nat
  dynIdx : List Nat
  dataOffset : Nat
  staticStrides : Option (List Nat)
  staticType : Bool
  staticShape : Bool

def arrInfo (it : Ty) (shape : List (Option Nat)) (order : List Nat) : ArrInfo :=
  let ssz := match it.ssize with | some s => s | none => 8
  let staticType := it.ssize.isSome
  let dyn := (List.range shape.length).filter fun i => (shape.getD i none).isNone
  let nd := shape.length
  let d1 := if dyn.length > 0 then dyn.length * 8 + (if nd > 1 then nd * 8 else 0) else 0
  let staticShape := dyn.isEmpty
  let strides : Option (List Nat) :=
    if staticShape then some (getStrides (shape.map (·.getD 0)) order ssz)
    else if nd > 1 then none else some [ssz]
  let d2 := if staticShape && staticType then 0 else 8
  { nd := nd, dynIdx := dyn, dataOffset := d1 + d2, staticStrides := strides, staticType := staticType, staticShape := staticShape }

def indexOffsetCode (arr : Ty) (icount : Nat) : List String :=
  match arr with
  | .array it shape order =>
    let ai := arrInfo it shape order
    let (pre, strides) : List String × List String :=
      match ai.staticStrides with
      | some ss => ([], ss.map toString)
      | none =>
        let names := (List.range ai.nd).map fun ii => s!"{arr.name}_s{ii}"
        let pre := (List.range ai.nd).map fun ii =>
          let so := 8 + ai.dynIdx.length * 8 + ii * 8
          s!"  int64_t {arr.name}_s{ii}={intFromObj s!"offset+{so}"};"
        (pre, names)
    let terms := (List.range strides.length).map fun ii => s!"i{ii + icount}*{strides.getD ii ""}"
    let soffset0 := "+".intercalate terms
    let soffset := if ai.dataOffset > 0 then s!"{ai.dataOffset}+{soffset0}" else soffset0
    if ai.staticType then pre ++ [s!"  offset+={soffset};"]
    else pre ++ [s!"  offset+={intFromObj s!"offset+{soffset}"};"]
  | _ => []

/-- the statement language of `gen_method_offset`: everything the generated accessors do to `offset` -/
inductive Stmt where
 | addConst (k : Nat)            -- `offset+=k;`
 | addLoadAt (k : Nat)           -- `offset+=*(int64_t*)((char*) obj+offset+k);`   (reference field of a struct)
 | deref                         -- `offset+=*(int64_t*)((char*) obj+offset);`     (Ref / UnionRef slot)
 | index (arr : Ty) (icount : Nat)   -- stride loads (N-D dynamic shape) and the index step of `Index_get_c_offset`
deriving Repr, Inhabited

def Stmt.print : Stmt → List String
 | .addConst k => [s!"  offset+={k};"]
 | .addLoadAt k => [s!"  offset+={intFromObj s!"offset+{k}"};"]
 | .deref => [s!"  offset+={intFromObj "offset"};"]
 | .index arr ic => indexOffsetCode arr ic

def dump (acc : Nat) : List Stmt := if acc > 0 then [.addConst acc] else []

/-- `gen_method_offset`: the static accumulator `acc` is dumped before every dynamic step -/
def genStmts : List Part → (acc icount : Nat) → List Stmt
 | [], acc, _ => dump acc
 | .index arr :: r, acc, ic =>
    let nd := match arr with | .array _ sh _ => sh.length | _ => 0
    dump acc ++ .index arr ic :: genStmts r 0 (ic + nd)
 | .field _ o true :: r, acc, ic => dump acc ++ .addLoadAt o :: genStmts r 0 ic
 | .field _ o false :: r, acc, ic => genStmts r (acc + o) ic
 | .ty (.ref _) :: r, acc, ic => dump acc ++ .deref :: genStmts r 0 ic
 | .ty _ :: r, acc, ic => genStmts r acc ic

def methodOffset (path : List Part) : String :=
  "\n".intercalate ("  int64_t offset=0;" :: (genStmts path 0 0).flatMap Stmt.print)

structure Arg where
  cty : String          -- atype._c_type
  compound : Bool
  isString : Bool
  size : Nat
  pointer : Bool := false
  const : Bool := false
  name : String := ""

def argOf (t : Ty) : Arg := { cty := t.cType, compound := t.isCompound, isString := t.isString, size := if t.isCompound then 8 else t.ssize.getD 0 }
def int64Arg : Arg := { cty := "int64_t", compound := false, isString := false, size := 8 }
def voidArg : Arg := { cty := "void", compound := false, isString := false, size := 0 }

def cTypeFromArg (a : Option Arg) : String :=
  match a with
  | none => "void"
  | some a =>
    let c0 := a.cty
    let c1 := if c0.endsWith "*" then gpumem ++ c0 else c0
    let c2 := if a.pointer then s!"{gpumem}{c1}*" else c1
    if a.const then "const " ++ c2 else c2

def cArgFromArg (a : Arg) : String :=
  let c0 := a.cty
  let c1 := if a.pointer then s!"{gpumem}{c0}*{restrictQ}" else if a.compound then s!"{c0}{restrictQ}" else c0
  let c2 := if a.const then "const " ++ c1 else c1
  s!"{c2} {a.name}"

def cPointed (a : Arg) : String :=
  let ret := cTypeFromArg (some a)
  if a.pointer || a.compound || a.isString then s!"({ret})(({charP}) obj+offset)"
  else
    let rettype := gpumem ++ ret ++ "*"
    if a.size == 1 then s!"*(({rettype}) obj+offset)" else s!"*({rettype})(({charP}) obj+offset)"

def funName (cls : Ty) (path : List Part) (action : String) (addN : Bool) : String × Nat :=
  let fields := path.filterMap fun | .field n _ _ => some n | _ => none
  let indices := (path.map fun | .index (.array _ sh _) => sh.length | _ => 0).sum
  let act := if addN && indices > 0 then action ++ toString indices else action
  let parts := [cls.cType, act] ++ (if fields.isEmpty then [] else ["_".intercalate fields])
  ("_".intercalate parts, indices)

def decl (cls : Ty) (path : List Part) (action : String) (addN const : Bool) (extra : List Arg) (ret : Option Arg) : String :=
  let (name, indices) := funName cls path action addN
  let args := [{ argOf cls with const := const, name := "obj" }] ++
    ((List.range indices).map fun ii => { int64Arg with name := s!"i{ii}" }) ++ extra
  let argStr := ", ".intercalate (args.map cArgFromArg)
  s!"{gpufun} {cTypeFromArg ret} {name}({argStr})"

def lastTy (path : List Part) : Option Ty := match path.getLast? with | some (.ty t) => some t | _ => none

inductive Kind | get | set | getp | len | typeid | member
deriving Repr, DecidableEq, Inhabited

/-- one generated accessor: the class it belongs to, the access path and what it does at the end of the path -/
structure CFun where
  cls : Ty
  path : List Part
  kind : Kind
deriving Inhabited

/-- which accessors `methods_from_path` emits for a path, in its order -/
def funsFromPath (cls : Ty) (path : List Part) : List CFun :=
  match lastTy path with
  | none => []
  | some lt =>
    (if lt.isScalar then [⟨cls, path, .get⟩, ⟨cls, path, .set⟩] else []) ++
    (if lt.isCompound || lt.isScalar || lt.isString then [⟨cls, path, .getp⟩] else []) ++
    (if lt.isArray then [⟨cls, path, .len⟩] else []) ++
    (if lt.isUnion then [⟨cls, path, .typeid⟩, ⟨cls, path, .member⟩] else [])

/-- the constant / `arr[k]` factors of `gen_method_len`: a static dimension is a constant, the j-th dynamic one reads header word `1 + j` -/
def lenTerms : List (Option Nat) → Nat → List (Sum Nat Nat)
 | [], _ => []
 | some dd :: r, k => .inl dd :: lenTerms r k
 | none :: r, k => .inr k :: lenTerms r (k + 1)

def CFun.print (f : CFun) : String :=
  let cls := f.cls
  let path := f.path
  match lastTy path with
  | none => ""
  | some lt =>
    let off := methodOffset path
    match f.kind with
    | .get =>
      let r := argOf lt
      "\n".intercalate [decl cls path "get" false true [] (some r) ++ "{", off, s!"  return {cPointed r};", "}"]
    | .set =>
      let r := argOf lt
      "\n".intercalate [decl cls path "set" false false [{ r with name := "value" }] none ++ "{", off, s!"  {cPointed { r with name := "value" }}=value;", "}"]
    | .getp =>
      let r := if lt.isScalar then { argOf lt with pointer := true } else argOf lt
      "\n".intercalate [decl cls path "getp" true false [] (some r) ++ "{", off, s!"  return {cPointed r};", "}"]
    | .len =>
      match lt with
      | .array it shape order =>
        let ai := arrInfo it shape order
        let d := decl cls path "len" true false [] (some int64Arg) ++ "{"
        if ai.staticShape then
          "\n".intercalate [d, s!"  return {(shape.map (·.getD 0)).foldl (· * ·) 1};", "}"]
        else
          let terms := (lenTerms shape 1).map fun | .inl dd => toString dd | .inr k => s!"arr[{k}]"
          let arrp := cPointed { int64Arg with pointer := true }
          "\n".intercalate [d, off, s!"  {intP} arr = {arrp};", s!"  return {"*".intercalate terms};", "}"]
      | _ => ""
    | .typeid =>
      "\n".intercalate [decl cls path "typeid" false true [] (some int64Arg) ++ "{", off, "  offset+=8;", s!"  return {cPointed int64Arg};", "}"]
    | .member =>
      "\n".intercalate [decl cls path "member" false true [] (some { voidArg with pointer := true }) ++ "{", off,
            s!"  offset+={intFromObj "offset"};", s!" return {cPointed { voidArg with pointer := true }};", "}"]

def methodsFromPath (cls : Ty) (path : List Part) : List String :=
  (funsFromPath cls path).map CFun.print

def allFuns (cls : Ty) : List CFun :=
  match cls with
  | .ref _ => []
  | _ => (dataPaths cls []).flatMap (funsFromPath cls)

def CFun.name (f : CFun) : String :=
  match f.kind with
  | .get => (funName f.cls f.path "get" false).1
  | .set => (funName f.cls f.path "set" false).1
  | .getp => (funName f.cls f.path "getp" true).1
  | .len => (funName f.cls f.path "len" true).1
  | .typeid => (funName f.cls f.path "typeid" false).1
  | .member => (funName f.cls f.path "member" false).1

def genCode (cls : Ty) : String :=
  let tn := cls.name
  let paths := match cls with
    | .ref _ => []
    | _ => dataPaths cls []
  let cdef := [s!"typedef {gpumem} struct {cls.cType}_s * {cls.cType};"] ++
    (match cls with
     | .unionref n ms => [s!"enum {n}_e\{{",".intercalate (ms.map fun m => s!"{n}_{m.cType}_t")}};"]
     | _ => [])
  let body := paths.flatMap (methodsFromPath cls)
  "\n".intercalate ([s!"#ifndef XOBJ_TYPEDEF_{tn}", s!"#define XOBJ_TYPEDEF_{tn}"] ++ cdef ++ body ++ ["#endif"])

/-! S-expression parser for types -/
inductive SExp | atom (s : String) | list (l : List SExp)
deriving Repr, Inhabited

def tokenize (s : String) : List String :=
  let rec go (cs : List Char) (cur : String) (acc : List String) : List String :=
    match cs with
    | [] => (if cur.isEmpty then acc else cur :: acc).reverse
    | '(' :: r => go r "" ("(" :: (if cur.isEmpty then acc else cur :: acc))
    | ')' :: r => go r "" (")" :: (if cur.isEmpty then acc else cur :: acc))
    | ' ' :: r => go r "" (if cur.isEmpty then acc else cur :: acc)
    | c :: r => go r (cur.push c) acc
  go s.toList "" []

partial def parseS (ts : List String) : Option (SExp × List String) :=
  match ts with
  | [] => none
  | "(" :: r =>
    let rec items (ts : List String) (acc : List SExp) : Option (SExp × List String) :=
      match ts with
      | ")" :: r => some (.list acc.reverse, r)
      | _ => match parseS ts with
        | some (e, r) => items r (e :: acc)
        | none => none
    items r []
  | ")" :: _ => none
  | a :: r => some (.atom a, r)

def scalarOf : String → Option Scalar
 | "f64" => some .f64 | "f32" => some .f32 | "i64" => some .i64 | "u64" => some .u64 | "i32" => some .i32
 | "u32" => some .u32 | "i16" => some .i16 | "u16" => some .u16 | "i8" => some .i8 | "u8" => some .u8 | _ => none

partial def tyOfS : SExp → Option Ty
 | .list [.atom "scalar", .atom s] => (scalarOf s).map .scalar
 | .list [.atom "string"] => some .string
 | .list (.atom "struct" :: .atom n :: fs) => do
    let fl ← fs.mapM fun | .list [.atom fnm, t] => (tyOfS t).map fun tt => (fnm, tt) | _ => none
    pure (.struct n fl)
 | .list [.atom "array", it, .list sh, .list ord] => do
    let i ← tyOfS it
    let s ← sh.mapM fun | .atom "dyn" => some none | .atom d => d.toNat?.map some | _ => none
    let o ← ord.mapM fun | .atom d => d.toNat? | _ => none
    pure (.array i s o)
 | .list [.atom "ref", t] => (tyOfS t).map .ref
 | .list (.atom "uref" :: .atom n :: ms) => do
    let ml ← ms.mapM tyOfS
    pure (.unionref n ml)
 | _ => none

def parseTy (s : String) : Option Ty := do
  let (e, _) ← parseS (tokenize s)
  tyOfS e
end CGen
