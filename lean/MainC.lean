import Xo.CGen
open CGen
partial def loop (h : IO.FS.Stream) : IO Unit := do
  let line ← h.getLine
  if line.isEmpty then return ()
  match parseTy line.trimAscii.toString with
  | some t => IO.println (genCode t); IO.println "@@END"
  | none => IO.println "bad-op"; IO.println "@@END"
  loop h
def main : IO Unit := do loop (← IO.getStdin)
