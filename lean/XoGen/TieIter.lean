import XoGen.Src.IterIndex
import XoGen.TieStrides
import Xo.Lemmas.IterIndex
/-! `iter_index(shape, order)` (array.py: the order in which the writer lays out the items of an N-dimensional array), translated from
/repo on this run as the list of the values it yields, IS the model's `iterIndex` - whose k-th tuple has memory position k
(`iterIndex_mposL`). -/
namespace XoGen
open LayM

theorem append_loop {α : Type} (f : α → List Int) (xs : List α) (out : List (List Int)) :
    (forIn (m := Id) xs out fun x r => pure (ForInStep.yield (r ++ [f x]))) = (pure (out ++ xs.map f) : Id _) := by
  induction xs generalizing out with
  | nil => simp
  | cons x xs ih => simp only [List.forIn_cons, pure_bind, ih, List.map_cons]; simp

theorem ndindex_natL : ∀ ds : List Nat, Py.ndindex (natL ds) = (ndindex ds).map natL
 | [] => by simp [Py.ndindex, ndindex, natL]
 | d :: ds => by
    simp only [natL_cons, Py.ndindex, ndindex, Int.toNat_natCast, List.map_flatMap, List.map_map, ndindex_natL ds]
    congr 1

/-- N-dimensional case (and every shape that is not one-dimensional): the tuples the source yields are the model's `iterIndex` -/
theorem src_iter_index (shape order : List Nat) (h1 : shape.length ≠ 1) :
    iter_index (natL shape) (natL order) = (iterIndex shape order).map natL := by
  have hne : ((Py.len (natL shape)) == (1 : Int)) = false := by
    simp only [Py.len, natL_length, beq_eq_false_iff_ne, ne_eq]; omega
  simp only [iter_index, Id.run, hne, Bool.false_eq_true, ↓reduceIte, pure_bind, bind_pure_comp, append_loop, List.nil_append]
  have hc : List.map (fun io => Py.get (natL shape) io) (natL order) = natL (order.map fun io => shape.getD io 0) := by
    simp only [natL, List.map_map]
    apply List.map_congr_left
    intro a _
    exact get_natL shape a
  have ha : List.map (fun ii => Py.index (natL order) ii) (Py.range (Py.len (natL order))) =
      natL ((List.range order.length).map fun ii => order.idxOf ii) := by
    simp only [Py.len, natL_length, range_natL]
    simp only [natL, List.map_map]
    apply List.map_congr_left
    intro a _
    have := index_natL order a
    simp only [natL] at this
    exact this
  rw [hc, ha, ndindex_natL]
  simp only [iterIndex, List.map_map, pure, Functor.map]
  apply List.map_congr_left
  intro ii _
  simp only [Function.comp, natL, List.map_map]
  apply List.map_congr_left
  intro a _
  exact get_natL ii (List.idxOf a order)

/-! the one-dimensional branch: the source yields the numbers 0 .. n-1 (translated as one-element tuples), the model's tuples for the only axis -/

theorem flatMap_single {α β : Type} (f : α → β) (xs : List α) : xs.flatMap (fun a => [f a]) = xs.map f := by
  induction xs with
  | nil => rfl
  | cons x xs ih => simp [List.flatMap_cons, ih]

theorem iterIndex_1d (n : Nat) : iterIndex [n] [0] = (List.range n).map (fun i => [i]) := by
  simp only [iterIndex, ndindex, List.map_cons, List.map_nil, List.length_singleton, List.range_one, List.getD_cons_zero]
  simp only [List.map_flatMap, List.map_cons, List.map_nil]
  rw [flatMap_single]
  apply List.map_congr_left
  intro a _
  simp

theorem src_iter_index_1d (n : Nat) : iter_index (natL [n]) (natL [0]) = (iterIndex [n] [0]).map natL := by
  have he : ((Py.len (natL [n])) == (1 : Int)) = true := by simp [Py.len, natL]
  simp only [iter_index, Id.run, he, ↓reduceIte, pure_bind, append_loop, List.nil_append]
  have hg : Py.get (natL [n]) (0 : Int) = (n : Int) := by simp [Py.get, natL]
  rw [hg, range_natL, iterIndex_1d]
  simp only [pure, natL, List.map_map]
  apply List.map_congr_left
  intro a _
  simp

end XoGen
