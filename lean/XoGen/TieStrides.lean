import XoGen.Src.CStrides
import XoGen.Src.Strides
import XoGen.Src.Offset
import XoGen.Src.BoundCheck
import Xo.Model.Index
/-! The source of `get_c_strides`, `get_strides`, `get_offset`, `bound_check` (array.py), translated from /repo on this
run, computes what the model's `cStrides`, `getStrides`, `dot`, `boundCheck` compute. -/
namespace XoGen

def natL (xs : List Nat) : List Int := xs.map Int.ofNat

@[simp] theorem natL_nil : natL [] = [] := rfl
@[simp] theorem natL_cons (x : Nat) (xs : List Nat) : natL (x :: xs) = (x : Int) :: natL xs := rfl
@[simp] theorem natL_length (xs : List Nat) : (natL xs).length = xs.length := by simp [natL]

def prodI : List Int → Int
 | [] => 1
 | x :: xs => x * prodI xs

def scan : List Int → Int → List Int
 | [], _ => []
 | x :: rs, ss => ss :: scan rs (ss * x)

theorem c_loop (rs : List Int) (ss : Int) (acc : List Int) :
    (forIn (m := Id) rs (ss, acc) fun sh s => pure (ForInStep.yield (s.1 * sh, s.2 ++ [s.1]))) =
      (pure (ss * prodI rs, acc ++ scan rs ss) : Id _) := by
  induction rs generalizing ss acc with
  | nil => simp [prodI, scan]
  | cons x rs ih =>
    simp only [List.forIn_cons, pure_bind, ih, prodI, scan]
    simp [Int.mul_assoc]

theorem prodI_append (xs : List Int) (x : Int) : prodI (xs ++ [x]) = prodI xs * x := by
  induction xs with
  | nil => simp [prodI]
  | cons y ys ih => simp [prodI, ih, Int.mul_assoc]

theorem scan_append (xs : List Int) (x ss : Int) : scan (xs ++ [x]) ss = scan xs ss ++ [ss * prodI xs] := by
  induction xs generalizing ss with
  | nil => simp [scan, prodI]
  | cons y ys ih => simp [scan, prodI, ih, Int.mul_assoc]

theorem prodI_reverse_natL (ds : List Nat) : prodI (natL ds).reverse = (Lay.prod ds : Int) := by
  induction ds with
  | nil => simp [prodI, Lay.prod]
  | cons d ds ih =>
    simp only [natL_cons, List.reverse_cons, prodI_append, ih, Lay.prod]
    push_cast; rw [Int.mul_comm]

theorem scan_reverse (ds : List Nat) (u : Nat) : (scan (natL ds).reverse u).reverse = natL (Lay.cStrides ds u) := by
  induction ds with
  | nil => simp [scan, Lay.cStrides]
  | cons d ds ih =>
    simp only [natL_cons, List.reverse_cons, scan_append, List.reverse_append, List.reverse_singleton, List.singleton_append,
      ih, Lay.cStrides, prodI_reverse_natL]
    push_cast; rfl

/-- `get_c_strides(shape, itemsize)` of the source = the model's `cStrides` -/
theorem src_get_c_strides (shape : List Nat) (u : Nat) : get_c_strides (natL shape) u = natL (Lay.cStrides shape u) := by
  unfold get_c_strides
  simp only [Id.run, c_loop, pure_bind, List.nil_append]
  exact scan_reverse shape u

theorem get_natL (xs : List Nat) (i : Nat) : Py.get (natL xs) (i : Int) = (xs.getD i 0 : Nat) := by
  unfold Py.get
  have : ¬ ((i : Int) < 0) := by omega
  simp only [this, ↓reduceIte, Int.toNat_natCast]
  simp only [natL, List.getD_eq_getElem?_getD, List.getElem?_map]
  cases xs[i]? <;> simp

theorem index_natL (xs : List Nat) (x : Nat) : Py.index (natL xs) (x : Int) = (xs.idxOf x : Nat) := by
  unfold Py.index
  induction xs with
  | nil => simp
  | cons y ys ih =>
    simp only [natL_cons, List.idxOf_cons]
    by_cases h : y = x
    · subst h; simp
    · have h' : ((y : Int) == (x : Int)) = false := by simp; omega
      have h'' : (y == x) = false := by simp [h]
      rw [h', h'']
      simp only [cond_false]
      push_cast
      omega

theorem range_natL (n : Nat) : Py.range (n : Int) = natL (List.range n) := by
  simp [Py.range, natL]

/-- `get_strides(shape, order, itemsize)` of the source = the model's `getStrides` (for every shape, every list of axes) -/
theorem src_get_strides (shape order : List Nat) (u : Nat) :
    get_strides (natL shape) (natL order) u = natL (Lay.getStrides shape order u) := by
  unfold get_strides Lay.getStrides
  simp only [Id.run, pure_bind, pure]
  have h1 : List.map (fun io => Py.get (natL shape) io) (natL order) = natL (order.map fun ax => shape.getD ax 0) := by
    simp only [natL, List.map_map]
    apply List.map_congr_left
    intro a _
    exact get_natL shape a
  rw [h1, src_get_c_strides]
  simp only [Py.len, natL_length, range_natL]
  simp only [natL, List.map_map]
  apply List.map_congr_left
  intro a _
  simp only [Function.comp]
  have := index_natL order a
  simp only [natL] at this
  show Py.get _ (Py.index (List.map Int.ofNat order) (a : Int)) = _
  rw [this]
  exact get_natL _ _

theorem sum_loop (xs : List Int) (a : Int) : xs.foldl (· + ·) a = a + xs.foldl (· + ·) 0 := by
  induction xs generalizing a with
  | nil => simp
  | cons x xs ih => simp only [List.foldl_cons]; rw [ih, ih (0 + x)]; omega

/-- `get_offset(idx, strides)` of the source = the model's `dot` -/
theorem src_get_offset (idx strides : List Nat) : get_offset (natL idx) (natL strides) = (Lay.dot idx strides : Nat) := by
  unfold get_offset
  simp only [Id.run, pure, Py.sum]
  induction idx generalizing strides with
  | nil => simp [Lay.dot]
  | cons i is ih =>
    cases strides with
    | nil => simp [Lay.dot]
    | cons s ss =>
      simp only [natL_cons, List.zip_cons_cons, List.map_cons, List.foldl_cons, Lay.dot]
      rw [sum_loop, ih]
      push_cast; omega

theorem bc_loop (idx : List Int) (shape : List Nat) :
    (forIn (m := Except String) (idx.zip (natL shape)) PUnit.unit fun x _ =>
        if (decide (x.1 < (0 : Int)) || decide (x.1 ≥ x.2)) = true then
          (do throw "IndexError"; pure (ForInStep.yield PUnit.unit) : Except String (ForInStep PUnit))
        else pure (ForInStep.yield PUnit.unit)) =
      if (idx.zip shape).any (fun p => decide (p.1 < 0) || decide (p.1 ≥ (p.2 : Int))) then .error "IndexError" else .ok PUnit.unit := by
  induction idx generalizing shape with
  | nil => rfl
  | cons i is ih =>
    cases shape with
    | nil => rfl
    | cons d ds =>
      rw [natL_cons, List.zip_cons_cons, List.zip_cons_cons, List.forIn_cons, List.any_cons]
      cases h : (decide (i < (0 : Int)) || decide (i ≥ (d : Int)))
      · simp only [h, Bool.false_eq_true, ↓reduceIte, Bool.false_or]
        exact ih ds
      · simp only [h, ↓reduceIte, Bool.true_or]; rfl

/-- `bound_check(index, shape)` of the source raises IndexError exactly when the model's `boundCheck` refuses -/
theorem src_bound_check (shape : List Nat) (idx : List Int) :
    bound_check idx (natL shape) = if Lay.boundCheck shape idx then .ok () else .error "IndexError" := by
  unfold bound_check Lay.boundCheck
  simp only [Py.len, natL_length]
  by_cases h : idx.length > shape.length
  · have : ((idx.length : Int) > (shape.length : Int)) := by omega
    simp only [this, decide_true, ↓reduceIte, h, Bool.not_true, Bool.false_and, Bool.false_eq_true]
    rfl
  · have : ¬ ((idx.length : Int) > (shape.length : Int)) := by omega
    simp only [this, decide_false, Bool.false_eq_true, ↓reduceIte, h, Bool.not_false, Bool.true_and]
    have := bc_loop idx shape
    simp only [bind, Except.bind] at this ⊢
    rw [this]
    cases (idx.zip shape).any fun p => decide (p.1 < 0) || decide (p.1 ≥ (p.2 : Int)) <;> rfl

end XoGen
