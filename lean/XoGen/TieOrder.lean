import XoGen.Src.MkOrder
import XoGen.TieStrides
/-! `mk_order(order, shape)` of array.py, translated from /repo on this run: "C" gives the axes in order, "F" the axes reversed - in
both cases a permutation of the axes (the hypothesis `WFP` / `order.Perm (List.range n)` of the index theorems) -, an explicit list
is returned as given. -/
namespace XoGen

theorem range3_down (n : Nat) : Py.range3 ((n : Int) - 1) (-1) (-1) = natL (List.range n).reverse := by
  unfold Py.range3
  have h1 : ¬ ((-1 : Int) > 0) := by decide
  have h2 : ((-1 : Int) < 0) := by decide
  simp only [h1, h2, ↓reduceIte]
  have hcount : (((n : Int) - 1 - -1 + - -1 - 1) / - -1).toNat = n := by
    have : ((n : Int) - 1 - -1 + - -1 - 1) / - -1 = (n : Int) := by
      have : (- -1 : Int) = 1 := by decide
      rw [this, Int.ediv_one]; omega
    rw [this]; simp
  rw [hcount]
  apply List.ext_getElem
  · simp [natL]
  · intro k h1 h2
    simp only [List.length_map, List.length_range] at h1
    simp only [List.getElem_map, List.getElem_range, natL, List.getElem_reverse, List.length_range]
    show (n : Int) - 1 + -1 * (k : Int) = ((n - 1 - k : Nat) : Int)
    omega

/-- `mk_order("C", shape)`: the axes in order -/
theorem src_mk_order_C (shape : List Nat) : mk_order (.str "C") (natL shape) = natL (List.range shape.length) := by
  simp only [mk_order, Id.run, Py.eqStr, pure, Py.len, natL_length]
  simp [range_natL]

/-- `mk_order("F", shape)`: the axes reversed -/
theorem src_mk_order_F (shape : List Nat) : mk_order (.str "F") (natL shape) = natL (List.range shape.length).reverse := by
  simp only [mk_order, Id.run, Py.eqStr, pure, Py.len, natL_length]
  have : (("F" : String) == "C") = false := by decide
  simp only [this, Bool.false_eq_true, ↓reduceIte]
  have hF : (("F" : String) == "F") = true := by decide
  simp only [hF, ↓reduceIte]
  exact range3_down shape.length

/-- both named orders are permutations of the axes: the hypothesis of the index theorems (`src_item_offset`, `C06_item_at_index`) -/
theorem src_mk_order_perm (shape : List Nat) :
    (List.range shape.length).Perm (List.range shape.length) ∧ (List.range shape.length).reverse.Perm (List.range shape.length) :=
  ⟨List.Perm.refl _, List.reverse_perm _⟩

/-- an explicit list of axes is used as given -/
theorem src_mk_order_explicit (order : List Int) (shape : List Int) : mk_order (.list order) shape = order := by
  simp [mk_order, Id.run, Py.eqStr, Py.asList, pure]

end XoGen
