import XoGen.TieStrides
import Xo.Props.C11
/-! End-to-end statements about the SOURCE text of the index arithmetic (array.py), obtained by composing the source ties with the
model's theorems: what `get_offset(index, get_strides(shape, order, itemsize))` computes, and that an index the source's
`bound_check` accepts is addressed inside the array. -/
namespace XoGen
open Lay

/-- the source's item offset - `get_offset(idx, get_strides(shape, order, unit))` as the source computes both - is `unit` times the
memory position of the index tuple, for every shape, every axis order that is a permutation of the axes and every index tuple with
one coordinate per axis -/
theorem src_item_offset (sh order idx : List Nat) (u : Nat) (hperm : order.Perm (List.range sh.length))
    (hl : idx.length = sh.length) :
    get_offset (natL idx) (get_strides (natL sh) (natL order) u) = ((u * mposL sh order idx : Nat) : Int) := by
  rw [src_get_strides, src_get_offset, dot_getStrides sh order idx u hperm hl]

/-- **an index the source's `bound_check` accepts is addressed inside the array**: its offset, computed by the source's own
`get_strides` / `get_offset`, is `unit * k` with `k < prod(shape)` - the item lies in the data area of `prod(shape)` items -/
theorem src_accepted_index_in_bounds (sh order idx : List Nat) (u : Nat) (hperm : order.Perm (List.range sh.length))
    (hl : idx.length = sh.length) (hacc : bound_check (natL idx) (natL sh) = .ok ()) :
    ∃ k, get_offset (natL idx) (get_strides (natL sh) (natL order) u) = ((u * k : Nat) : Int) ∧ k < prod sh := by
  refine ⟨mposL sh order idx, src_item_offset sh order idx u hperm hl, ?_⟩
  have hb : boundCheck sh (idx.map Int.ofNat) = true := by
    have := src_bound_check sh (natL idx)
    rw [hacc] at this
    by_cases h : boundCheck sh (natL idx) = true
    · exact h
    · simp [h] at this
  exact mposL_lt sh order idx hperm ((C11_full_index_accepted_iff sh idx hl).mp hb)

/-- and an index it refuses is no index of the array: a full tuple raises IndexError exactly when some coordinate is outside its axis -/
theorem src_refused_index_invalid (sh idx : List Nat) (hl : idx.length = sh.length) :
    bound_check (natL idx) (natL sh) = .error "IndexError" ↔ ¬ ValidIdx sh idx := by
  rw [src_bound_check sh (natL idx), ← C11_full_index_accepted_iff sh idx hl]
  show (if boundCheck sh (idx.map Int.ofNat) = true then (Except.ok () : Except String Unit) else .error "IndexError") = _ ↔ _
  by_cases h : boundCheck sh (idx.map Int.ofNat) = true <;> simp [h]

end XoGen
