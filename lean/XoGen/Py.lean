import Mathlib.Data.Int.Bitwise
/-! Python primitives the generated definitions (`XoGen/Src/*.lean`, written by `checks/pygen.py` from /repo's source) refer to.
Python `int` is `Int`; `&` is Mathlib's two's complement `Int.land`.  `get` / `index` are TOTAL: where Python raises
IndexError / ValueError they return 0 / the length (not modelled; trusted base). -/
namespace Py

def len {α : Type} (xs : List α) : Int := xs.length

/-- `xs[i]` with Python's negative indices -/
def get (xs : List Int) (i : Int) : Int :=
  if i < 0 then (if i.natAbs ≤ xs.length then xs.getD (xs.length - i.natAbs) 0 else 0) else xs.getD i.toNat 0

/-- `xs.index(x)` -/
def index (xs : List Int) (x : Int) : Int := xs.idxOf x

/-- `range(n)` -/
def range (n : Int) : List Int := (List.range n.toNat).map Int.ofNat

/-- `sum(...)` -/
def sum (xs : List Int) : Int := xs.foldl (· + ·) 0

def shl (a b : Int) : Int := a * 2 ^ b.toNat
def shr (a b : Int) : Int := a / 2 ^ b.toNat

/-- a Python object with the attributes `start`, `end` (a free-list `Chunk`); `end` is a Lean keyword: attributes carry a trailing `_` -/
structure Obj where
  start_ : Int
  end_ : Int
deriving DecidableEq, Repr

/-- an argument that is a string or a list of integers (`order`: "C", "F", or the axes) -/
inductive StrOrList | str (s : String) | list (l : List Int)

def eqStr : StrOrList → String → Bool
 | .str s, t => s == t
 | .list _, _ => false

/-- the argument returned where a list is expected (a string returned as such is not modelled: the empty list) -/
def asList : StrOrList → List Int
 | .list l => l
 | .str _ => []

/-- `range(a, b, c)`: `ceil((b - a) / c)` items `a + c * i` (none when the step points away from `b`; step 0 - a ValueError in Python - gives none) -/
def range3 (a b c : Int) : List Int :=
  if c > 0 then (List.range ((b - a + c - 1) / c).toNat).map fun (i : Nat) => a + c * (i : Int)
  else if c < 0 then (List.range ((a - b + (-c) - 1) / (-c)).toNat).map fun (i : Nat) => a + c * (i : Int)
  else []

/-- a CPU buffer object: the attribute `buffer` is its bytes -/
structure Buf where
  buffer_ : List UInt8

/-- `x[a:b]` for non-negative bounds (Python truncates silently at the end) -/
def slice (xs : List UInt8) (a b : Int) : List UInt8 := (xs.drop a.toNat).take (b.toNat - a.toNat)

/-- `x[a:b] = src` on a bytearray for non-negative bounds (a NumPy array refuses a source of another length: not modelled) -/
def setslice (xs : List UInt8) (a b : Int) (src : List UInt8) : List UInt8 := xs.take a.toNat ++ src ++ xs.drop b.toNat

/-- an XBuffer object: storage, capacity, free list -/
structure XBuf where
  buffer_ : List UInt8
  capacity_ : Int
  chunks_ : List Obj

/-- `self._new_buffer(n)` of both CPU kinds (`np.zeros(n, int8)` / `bytearray(n)`): n zero bytes (primitive, not translated) -/
def new_buffer (n : Int) : List UInt8 := List.replicate n.toNat 0

/-- `xs[-1]` of a list of chunks (an IndexError on the empty list is not modelled: a chunk [0, 0)) -/
def last (xs : List Obj) : Obj := xs.getLast?.getD ⟨0, 0⟩

/-- `xs[-1].end = e`: the objects in the list are mutable, the last one is changed in place -/
def setLastEnd : List Obj → Int → List Obj
 | [], _ => []
 | [c], e => [{ c with end_ := e }]
 | c :: d :: cs, e => c :: setLastEnd (d :: cs) e

/-- a buffer object as `update_from_xbuffer` sees it: its bytes and (the identity of) its context -/
structure CBuf where
  buffer_ : List UInt8
  context_ : Int

/-- `np.ndindex(*dims)`: all index tuples in C order -/
def ndindex : List Int → List (List Int)
 | [] => [[]]
 | d :: ds => (List.range d.toNat).flatMap fun (i : Nat) => (ndindex ds).map ((i : Int) :: ·)

end Py
