import XoGen.Src.ToSlotSize
import XoGen.Src.Align
import Xo.Model.Layout
import Xo.Model.Alloc
import Xo.Lemmas.Alloc
/-! The source of `_to_slot_size` (typeutils.py) and `_align` (context.py), translated from /repo on this run, IS the
model's `slot` / `alignUp`. -/
namespace XoGen

theorem ldiff_low (x k : Nat) : Nat.ldiff x (2 ^ k - 1) = x - x % 2 ^ k := by
  apply Nat.eq_of_testBit_eq
  intro i
  rw [Nat.testBit_ldiff, Nat.testBit_two_pow_sub_one]
  have h : x - x % 2 ^ k = (x / 2 ^ k) * 2 ^ k := by
    have := Nat.div_add_mod x (2 ^ k); rw [Nat.mul_comm] at this; omega
  rw [h, Nat.testBit_mul_two_pow]
  by_cases hi : i < k
  · simp [hi]
  · simp only [hi, decide_false, Bool.not_false, Bool.and_true, Nat.testBit_div_two_pow]
    have : k ≤ i := by omega
    simp [this]

theorem land_neg_pow (x k : Nat) : Int.land (x : Int) (-(2 ^ k : Int)) = ((x - x % 2 ^ k : Nat) : Int) := by
  have hp : 0 < 2 ^ k := Nat.pos_of_ne_zero (by simp)
  have : (-(2 ^ k : Int)) = Int.negSucc (2 ^ k - 1) := by
    rw [Int.negSucc_eq]; push_cast [Nat.cast_sub hp]; omega
  rw [this]
  show ((Nat.ldiff x (2 ^ k - 1) : Nat) : Int) = _
  rw [ldiff_low]

/-- `_to_slot_size(n)`, as the source computes it on Python integers, is the model's `slot n` for every size.  The proof tries, in
turn, the forms a maintainer is likely to write: `(size + 7) & (-8)` (the pinned source), and the pure integer-arithmetic forms
`(size + 7) // 8 * 8`, `((size + 7) >> 3) << 3`, `size + (-size) % 8`-like expressions (linear arithmetic with `/` and `%` by
constants: `omega`). -/
theorem src_to_slot_size (n : Nat) : to_slot_size (n : Int) = (Lay.slot n : Int) := by
  first
  | (unfold to_slot_size
     simp only [Id.run, pure]
     have := land_neg_pow (n + 7) 3
     simp only [Nat.cast_add, Nat.cast_ofNat] at this
     have h8 : (-(2 ^ 3 : Int)) = -(8 : Int) := by decide
     rw [h8] at this
     rw [this]
     unfold Lay.slot
     congr 1
     omega)
  | (unfold to_slot_size Lay.slot
     simp only [Id.run, pure]
     first
     | omega
     | (simp [Py.shl, Py.shr] <;> omega))

/-- `_align(o, a)` for an alignment that is a power of two is the model's `alignUp o a` -/
theorem src_align (o k : Nat) : align (o : Int) ((2 ^ k : Nat) : Int) = (Alloc.alignUp o (2 ^ k) : Int) := by
  have hp : 0 < 2 ^ k := Nat.pos_of_ne_zero (by simp)
  have e : ((o : Int) + ((2 ^ k : Nat) : Int) - 1) = ((o + 2 ^ k - 1 : Nat) : Int) := by
    push_cast [Nat.cast_sub (show 1 ≤ o + 2 ^ k by omega)]; omega
  first
  | (unfold align
     simp only [Id.run, pure]
     rw [e]
     have := land_neg_pow (o + 2 ^ k - 1) k
     push_cast at this ⊢
     rw [this]
     unfold Alloc.alignUp
     simp only [Nat.and_two_pow_sub_one_eq_mod])
  | (-- the division form `(offset + alignment - 1) // alignment * alignment`
     unfold align
     simp only [Id.run, pure]
     rw [e, Alloc.alignUp_pow2]
     push_cast
     rfl)

/-- what the source's `_align` computes, stated outright: for an alignment that is a power of two it returns the LEAST multiple of the
alignment that is not below the offset (a multiple of the alignment, at least the offset, below every other such multiple) -/
theorem src_align_least (o k : Nat) :
    ∃ r : Nat, align (o : Int) ((2 ^ k : Nat) : Int) = (r : Int) ∧ r % 2 ^ k = 0 ∧ o ≤ r ∧
      ∀ x, x % 2 ^ k = 0 → o ≤ x → r ≤ x :=
  ⟨Alloc.alignUp o (2 ^ k), src_align o k, Alloc.alignUp_dvd o k, Alloc.alignUp_ge o k, fun x hx hge => Alloc.alignUp_least o k x hx hge⟩

/-- what the source's `_to_slot_size` computes, stated outright: the least multiple of 8 that is not below the size -/
theorem src_slot_least (n : Nat) :
    ∃ r : Nat, to_slot_size (n : Int) = (r : Int) ∧ r % 8 = 0 ∧ n ≤ r ∧ r < n + 8 := by
  refine ⟨Lay.slot n, src_to_slot_size n, ?_, ?_, ?_⟩ <;> unfold Lay.slot <;> omega

end XoGen
