import XoGen.Src.ChunkSize
import XoGen.Src.ChunkOverlaps
import XoGen.Src.ChunkMerge
import Xo.Model.Alloc
/-! The methods of `Chunk` (context.py: the entries of the free list), translated from /repo on this run, are what the
allocator model's `free` / `getFree` use: the merge condition, the merged chunk, the size. -/
namespace XoGen
open Alloc

def ofChunk (c : Chunk) : Py.Obj := ⟨c.start, c.stop⟩

/-- `chunk.size` of the source, for a well-formed chunk, is the number of bytes the model's `getFree` counts for it -/
theorem src_chunk_size (c : Chunk) (h : c.start ≤ c.stop) : Chunk_size (ofChunk c) = ((c.stop - c.start : Nat) : Int) := by
  simp only [Chunk_size, Id.run, pure, ofChunk]
  omega

/-- `pch.overlaps(ch)` of the source is the condition under which the model's merge loop (`mergeFrom`) merges -/
theorem src_chunk_overlaps (p c : Chunk) :
    Chunk_overlaps (ofChunk p) (ofChunk c) = decide (c.stop ≥ p.start ∧ c.start ≤ p.stop) := by
  simp only [Chunk_overlaps, Id.run, pure, ofChunk]
  by_cases h1 : c.stop ≥ p.start <;> by_cases h2 : c.start ≤ p.stop <;> simp [h1, h2]

/-- `pch.merge(ch)` of the source returns the chunk the model's merge loop continues with -/
theorem src_chunk_merge (p c : Chunk) :
    Chunk_merge (ofChunk p) (ofChunk c) = ofChunk ⟨min p.start c.start, max p.stop c.stop⟩ := by
  simp only [Chunk_merge, Id.run, pure, ofChunk]
  congr 1 <;> omega

end XoGen
