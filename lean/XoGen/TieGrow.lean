import XoGen.Src.Grow
import XoGen.Src.GetFree
import XoGen.TieChunk
import XoGen.TieBuf
/-! `XBuffer.grow` (context.py), translated from /repo on this run - storage, capacity and free list together - IS the model's
`Alloc.Buf.grow`: the new storage holds every old byte followed by zeros, the capacity is the sum, the free list is `growChunks`. -/
namespace XoGen
open Alloc MemS

/-- the free-list part of `grow` as the source writes it (append a chunk, or stretch the LAST chunk in place) -/
def growChunksPy (cap n : Nat) (cs : List Py.Obj) : List Py.Obj :=
  if (Py.len cs == (0 : Int)) || ((Py.last cs).end_ != (cap : Int)) then cs ++ [Py.Obj.mk cap ((cap : Int) + (n : Int))]
  else Py.setLastEnd cs ((cap : Int) + (n : Int))

theorem growChunksPy_cons (cap n : Nat) (c d : Py.Obj) (cs : List Py.Obj) :
    growChunksPy cap n (c :: d :: cs) = c :: growChunksPy cap n (d :: cs) := by
  have h1 : (Py.len (c :: d :: cs) == (0 : Int)) = false := by
    simp only [Py.len, List.length_cons, beq_eq_false_iff_ne, ne_eq]; omega
  have h2 : (Py.len (d :: cs) == (0 : Int)) = false := by
    simp only [Py.len, List.length_cons, beq_eq_false_iff_ne, ne_eq]; omega
  have h3 : Py.last (c :: d :: cs) = Py.last (d :: cs) := by simp [Py.last, List.getLast?_cons_cons]
  simp only [growChunksPy, h1, h2, h3, Bool.false_or]
  split <;> simp [Py.setLastEnd]

theorem growChunks_src (cap n : Nat) : ∀ cs : List Chunk, growChunksPy cap n (cs.map ofChunk) = (growChunks cap n cs).map ofChunk
 | [] => by simp [growChunksPy, growChunks, Py.len, ofChunk]
 | [l] => by
    simp only [growChunksPy, growChunks, List.map_cons, List.map_nil, Py.len, List.length_singleton, Py.last, List.getLast?_singleton,
      Option.getD_some, ofChunk, Py.setLastEnd]
    by_cases h : l.stop = cap
    · subst h; simp [ofChunk]
    · have h' : ¬ ((l.stop : Int) = (cap : Int)) := by omega
      simp [h, h', ofChunk]
 | c :: d :: cs => by
    have ih := growChunks_src cap n (d :: cs)
    simp only [List.map_cons] at ih ⊢
    rw [growChunksPy_cons, ih]
    simp [growChunks]

/-- **`grow` of the source is `Buf.grow` of the model** for every buffer whose capacity is the length of its storage: every old byte is
carried over in place, zeros follow, capacity and free list are the model's -/
theorem src_grow (b : Buf) (n : Nat) (hcap : b.a.capacity = b.mem.length) :
    let r := XBuffer_grow ⟨b.mem, (b.a.capacity : Int), b.a.chunks.map ofChunk⟩ (n : Int)
    r.buffer_ = (b.grow n).mem ∧ r.capacity_ = ((b.grow n).a.capacity : Int) ∧ r.chunks_ = (b.grow n).a.chunks.map ofChunk := by
  have hbuf : (BufferNumpy_copy_to_native ⟨b.mem⟩ (Py.new_buffer ((b.a.capacity : Int) + (n : Int))) (0 : Int) (0 : Int) (b.a.capacity : Int))
      = b.mem ++ List.replicate n 0 := by
    have h1 := slice_nat b.mem 0 b.a.capacity
    have h2 := setslice_nat (Py.new_buffer ((b.a.capacity : Int) + (n : Int))) (readAt b.mem 0 b.a.capacity) 0 b.a.capacity
      (by simp [readAt, hcap])
    simp only [Nat.cast_zero] at h1 h2
    simp only [BufferNumpy_copy_to_native, Id.run, pure, h1, h2]
    have hz : Py.new_buffer ((b.a.capacity : Int) + (n : Int)) = List.replicate (b.a.capacity + n) 0 := by
      unfold Py.new_buffer; congr 1
    rw [hz]
    simp [writeAt, readAt, hcap, List.drop_replicate]
  have hch := growChunks_src b.a.capacity n b.a.chunks
  simp only [XBuffer_grow, Id.run, pure, hbuf]
  refine ⟨?_, ?_, ?_⟩
  · split <;> simp [Buf.grow, hcap]
  · split <;> simp [Buf.grow, Alloc.grow]
  · simp only [growChunksPy] at hch
    split <;> rename_i hc <;> simp only [hc, ↓reduceIte] at hch <;> simp [Buf.grow, Alloc.grow, ← hch]

theorem sum_foldl (xs : List Int) (a : Int) : xs.foldl (· + ·) a = a + xs.foldl (· + ·) 0 := by
  induction xs generalizing a with
  | nil => simp
  | cons x xs ih => simp only [List.foldl_cons]; rw [ih, ih (0 + x)]; omega

/-- **`get_free()` of the source is the model's `getFree`** - the sum of the sizes of the free chunks - for every free list of
well-formed chunks (start ≤ end: what the allocator invariant `WF` provides) -/
theorem src_get_free (m : Mem) (cap : Int) (s : AState) (hwf : ∀ c ∈ s.chunks, c.start ≤ c.stop) :
    XBuffer_get_free ⟨m, cap, s.chunks.map ofChunk⟩ = (getFree s : Int) := by
  simp only [XBuffer_get_free, Id.run, pure, Py.sum, getFree, List.map_map]
  generalize s.chunks = cs at hwf
  induction cs with
  | nil => simp
  | cons c cs ih =>
    have hc := hwf c (by simp)
    have ih' := ih (fun d hd => hwf d (by simp [hd]))
    simp only [List.map_cons, List.foldl_cons, List.sum_cons, Function.comp] at ih' ⊢
    rw [sum_foldl, ih', src_chunk_size c hc]
    push_cast
    omega

end XoGen
