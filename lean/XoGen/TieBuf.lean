import XoGen.Src.NpUpdateFromNative
import XoGen.Src.NpToNative
import XoGen.Src.NpCopyToNative
import XoGen.Src.NpUpdateFromBuffer
import XoGen.Src.NpToBytearray
import XoGen.Src.BaUpdateFromNative
import XoGen.Src.BaToNative
import XoGen.Src.BaCopyToNative
import XoGen.Src.BaUpdateFromBuffer
import XoGen.Src.BaToBytearray
import XoGen.Src.UpdateFromXbuffer
import Xo.Model.BufPrim
/-! The byte-moving primitives of both CPU buffer kinds (context_cpu.py: `update_from_native`, `to_native`, `copy_to_native`,
`update_from_buffer`, `to_bytearray` of BufferNumpy and of BufferByteArray), translated from /repo on this run, ARE the model's
`BufPrim` functions on every request inside the buffers' capacities - for all buffer contents, offsets and lengths. -/
namespace XoGen
open MemS BufPrim

theorem slice_nat (xs : List UInt8) (a n : Nat) : Py.slice xs (a : Int) ((a : Int) + (n : Int)) = readAt xs a n := by
  unfold Py.slice readAt
  have : ((a : Int) + (n : Int)).toNat - (a : Int).toNat = n := by omega
  rw [this]; simp

theorem readAt_length (xs : List UInt8) (a n : Nat) (h : a + n ≤ xs.length) : (readAt xs a n).length = n := by
  simp [readAt]; omega

theorem setslice_nat (xs src : List UInt8) (a n : Nat) (h : src.length = n) :
    Py.setslice xs (a : Int) ((a : Int) + (n : Int)) src = writeAt xs a src := by
  unfold Py.setslice writeAt
  have : ((a : Int) + (n : Int)).toNat = a + src.length := by omega
  rw [this]; simp

/-- `update_from_native` of both kinds = the model's `updateFromNative`, for every request inside the capacities -/
theorem src_update_from_native (m source : Mem) (off so n : Nat) (h : so + n ≤ source.length ∧ off + n ≤ m.length) :
    updateFromNative m off source so n = .ok (BufferNumpy_update_from_native ⟨m⟩ off source so n).buffer_ ∧
    updateFromNative m off source so n = .ok (BufferByteArray_update_from_native ⟨m⟩ off source so n).buffer_ := by
  have hl := readAt_length source so n h.1
  simp only [updateFromNative, h, and_self, ↓reduceIte, assign, BufPrim.slice, hl, BufferNumpy_update_from_native,
    BufferByteArray_update_from_native, Id.run, pure, slice_nat, setslice_nat _ _ off n hl]

/-- `to_native` / `to_bytearray` of both kinds = the model's slice -/
theorem src_to_native (m : Mem) (off n : Nat) :
    BufferNumpy_to_native ⟨m⟩ off n = toNative m off n ∧ BufferByteArray_to_native ⟨m⟩ off n = toNative m off n ∧
    BufferNumpy_to_bytearray ⟨m⟩ off n = toBytearray m off n ∧ BufferByteArray_to_bytearray ⟨m⟩ off n = toBytearray m off n := by
  simp only [BufferNumpy_to_native, BufferByteArray_to_native, BufferNumpy_to_bytearray, BufferByteArray_to_bytearray, Id.run, pure,
    slice_nat, toNative, toBytearray, BufPrim.slice, and_self]

/-- `copy_to_native` of both kinds: the new destination is the model's `copyToNative` -/
theorem src_copy_to_native (m dest : Mem) (doff soff n : Nat) (h : soff + n ≤ m.length ∧ doff + n ≤ dest.length) :
    copyToNative m dest doff soff n = .ok (BufferNumpy_copy_to_native ⟨m⟩ dest doff soff n) ∧
    copyToNative m dest doff soff n = .ok (BufferByteArray_copy_to_native ⟨m⟩ dest doff soff n) := by
  have hl := readAt_length m soff n h.1
  simp only [copyToNative, h, and_self, ↓reduceIte, assign, BufPrim.slice, hl, BufferNumpy_copy_to_native,
    BufferByteArray_copy_to_native, Id.run, pure, slice_nat, setslice_nat _ _ doff n hl]

/-- `update_from_buffer` of both kinds (the source as its bytes): the model's `updateFromBuffer` -/
theorem src_update_from_buffer (m src : Mem) (off : Nat) (h : off + src.length ≤ m.length) :
    updateFromBuffer m off src = .ok (BufferNumpy_update_from_buffer ⟨m⟩ off src).buffer_ ∧
    updateFromBuffer m off src = .ok (BufferByteArray_update_from_buffer ⟨m⟩ off src).buffer_ := by
  simp only [updateFromBuffer, assign, h, ↓reduceIte, BufferNumpy_update_from_buffer, BufferByteArray_update_from_buffer, Id.run, pure,
    Py.len, setslice_nat _ _ off src.length rfl]
  simp

/-- **`update_from_xbuffer`** (context.py: from another buffer of the same or of a different context; the dispatch and both paths, the
methods it calls being the translated ones) **= the model's `updateFromXbuffer`**, for every request inside the capacities -/
theorem src_update_from_xbuffer (m source : Mem) (cs cd : Int) (off so n : Nat) (h : so + n ≤ source.length ∧ off + n ≤ m.length) :
    updateFromXbuffer (cs == cd) m off source so n = .ok (XBuffer_update_from_xbuffer ⟨m, cd⟩ off ⟨source, cs⟩ so n).buffer_ := by
  have hl := readAt_length source so n h.1
  unfold updateFromXbuffer XBuffer_update_from_xbuffer
  by_cases hc : cs = cd
  · have h1 := (src_update_from_native m source off so n h).1
    simp only [hc, beq_self_eq_true, ↓reduceIte, Id.run, pure, h1]
  · have hb : (cs == cd) = false := by simp [hc]
    have h2 := (src_update_from_buffer m (readAt source so n) off (by rw [hl]; exact h.2)).1
    have h3 := (src_to_native source so n).2.2.1
    simp only [hb, Bool.false_eq_true, ↓reduceIte, h.1, Id.run, pure, h3, toBytearray, BufPrim.slice] at h2 ⊢
    exact h2

end XoGen
