import Xo.LayR
open CGen LayM
structure St where
  types : List (String × Ty) := []
  objs : List (String × (Ty × Nat)) := []
  buf : Buf := { alloc := { capacity := 0, chunks := [], align := 1, growStep := none }, mem := #[] }
def parsePath (s : String) : List Step :=
  if s == "-" then [] else
  (s.splitOn "/").filterMap fun seg =>
    match seg.splitOn ":" with
    | ["f", n] => some (Step.field n)
    | ["i", is] => some (Step.item ((is.splitOn ",").filterMap String.toInt?))
    | _ => none
def step (s : St) (line : String) : St × String :=
  let l := line.trimAscii.toString
  match l.splitOn " " with
  | "buf" :: cap :: al :: _ =>
    match cap.toNat?, al.toNat? with
    | some c, some a => ({ s with buf := { alloc := { capacity := c, chunks := [⟨0, c⟩], align := a, growStep := none }, mem := Array.replicate c 0 }, objs := [] }, "ok")
    | _, _ => (s, "bad-op")
  | "fill" :: o :: n :: byte :: _ =>
    match o.toNat?, n.toNat?, byte.toNat? with
    | some o, some n, some x => ({ s with buf := wr s.buf o (List.replicate n (UInt8.ofNat x)) }, "ok")
    | _, _, _ => (s, "bad-op")
  | "alloc" :: n :: _ =>
    match n.toNat? with
    | some k => let (o, b) := allocate s.buf k; ({ s with buf := b }, s!"off {o}")
    | none => (s, "bad-op")
  | "free" :: o :: n :: _ =>
    match o.toNat?, n.toNat? with
    | some o, some n => ({ s with buf := { s.buf with alloc := { s.buf.alloc with chunks := Alloc.freeChunks s.buf.alloc.chunks o n } } }, "ok")
    | _, _ => (s, "bad-op")
  | "type" :: name :: rest =>
    match parseTy (" ".intercalate rest) with
    | some t => ({ s with types := (name, t) :: s.types }, "ok")
    | none => (s, "bad-type")
  | "new" :: tname :: hname :: rest =>
    match s.types.lookup tname, (parseS (tokenize (" ".intercalate rest))).bind (fun x => vinOfS x.1) with
    | some t, some v =>
      let (o, b) := construct t v s.buf
      ({ s with buf := b, objs := (hname, (t, o)) :: s.objs }, s!"off {o} size {vsize t v} cap {b.alloc.capacity} mem {hexOf b.mem}")
    | _, _ => (s, "bad-op")
  | ["deep", h, path] =>
    match s.objs.lookup h with
    | some (t, o) =>
      match follow s.buf.mem t o (parsePath path) with
      | .ok (tt, a) => (s, s!"val {deep s.buf.mem tt a}")
      | .error e => (s, s!"err {e.str}")
    | none => (s, "bad-op")
  | ["caches", h, path] =>
    match s.objs.lookup h with
    | some (t, o) =>
      match follow s.buf.mem t o (parsePath path) with
      | .ok (tt, a) =>
        match resolve tt s.buf.mem a with
        | some (t2, a2) => (s, s!"caches {viewCaches s.buf.mem t2 a2}")
        | none => (s, "caches none")
      | .error e => (s, s!"err {e.str}")
    | none => (s, "bad-op")
  | "set" :: h :: path :: rest =>
    match s.objs.lookup h, (parseS (tokenize (" ".intercalate rest))).bind (fun x => vinOfS x.1) with
    | some (t, o), some v =>
      match follow s.buf.mem t o (parsePath path) with
      | .ok (tt, a) =>
        let (b, e) := assign tt a v s.buf
        ({ s with buf := b }, (match e with | none => "ok" | some e => s!"err {e.str}") ++ s!" cap {b.alloc.capacity} mem {hexOf b.mem}")
      | .error e => (s, s!"err {e.str} cap {s.buf.alloc.capacity} mem {hexOf s.buf.mem}")
    | _, _ => (s, "bad-op")
  | _ => (s, "bad-op")
partial def loop (h : IO.FS.Stream) (s : St) : IO Unit := do
  let line ← h.getLine
  if line.isEmpty then return ()
  let (s', out) := step s line
  IO.println out
  loop h s'
def main : IO Unit := do loop (← IO.getStdin) {}
