"""Reference-graph component (`rg`): histories of node objects linked by Ref / UnionRef slots inside ONE buffer, run on the REAL
library and on the Lean PROOF model `Xo/Model/RefGraph.lean` (the definitions `C08_ref_history` is about).

Tie: after every operation the capacity, a checksum of ALL bytes of the buffer and what every reference slot of every live node
denotes (address or null, member index) are compared with the model.
Oracle (model independent, C08): decoded from the raw slot bytes, every non-null reference denotes the start of a live node of the
declared / recorded member class inside the buffer; binding an object of the same buffer allocates nothing and denotes that very
object; binding plain data or a foreign object creates a fresh node disjoint from everything live; null reads back None with member
index -1; a write through the reference is seen through the original handle."""
import collections
import random
import struct

from . import alloc, common

NULL = -(2 ** 63)


def random_universe(r):
    n = r.choice([2, 3, 3, 4])
    u = [["s"] * r.choice([1, 2])]
    for i in range(1, n):
        fs = []
        for _ in range(r.choice([1, 2, 3, 4])):
            k = r.random()
            if k < 0.3:
                fs.append("s")
            elif k < 0.7:
                fs.extend([f"r{r.randrange(i)}"] * r.choice([1, 1, 2, 3]))
            else:
                # members of a union reference may be ANY class of the universe, the holder's own class and later ones included
                # (`_reftypes` is filled after the classes exist): self-loops and cycles, relative offset 0 when the slot is the
                # first field of its own referent
                pool = range(n) if r.random() < 0.5 else range(i)
                ms = r.sample(pool, r.randrange(1, len(pool) + 1))
                fs.extend(["u" + "+".join(map(str, ms))] * r.choice([1, 1, 1, 2]))
        u.append(fs)
    return u


def add_dynamic_array(r, u):
    """appends a class that the model sees as [size word, length word, n identical reference slots] and the library as ONE dynamic
    array of references `Ref[C][:]` / `U[:]` of length n (byte for byte the same node), and possibly a class referring to it;
    returns the index of the array class"""
    n = len(u)
    tok = f"r{r.randrange(n)}" if r.random() < 0.6 else "u" + "+".join(map(str, r.sample(range(n), r.randrange(1, n + 1))))
    u.append(["s", "s"] + [tok] * r.choice([0, 1, 2, 3]))
    if r.random() < 0.6:
        u.append(r.choice([[f"r{n}", "s"], [f"u{n}+0", f"r{n}"], ["s", f"u0+{n}"]]))
    return n


def univ_word(u):
    return ";".join(",".join(c) for c in u)


class Classes:
    """the real classes of a universe"""

    def __init__(self, xo, u, tag, arrays=False, dyn=None):
        """arrays: a run of identical reference fields becomes ONE field holding a static array of references (`Ref[C][n]`,
        `U[n]`) - byte for byte the same layout, but read and written through array.py"""
        self.u, self.cls, self.names, self.where = u, [], [], []
        self.dyn = dyn
        meta_s, meta_u = type(xo.Struct), type(xo.UnionRef)
        late = []
        for i, fs in enumerate(u):
            d, where, k = {}, {}, 0
            if i == dyn:
                # a dynamic array of references: header words at fields 0 and 1, items behind
                f = fs[2] if len(fs) > 2 else None
                if f is None or f[0] == "r":
                    t = xo.Ref[self.cls[int(f[1:]) if f else 0]]
                else:
                    t = meta_u(f"Rg{tag}U{i}", (xo.UnionRef,), {"_reftypes": []})
                    late.append((t, [int(x) for x in f[1:].split("+")]))
                c = t[:]
                self.cls.append(c)
                self.names.append(c.__name__)
                self.where.append({k_: ("ITEM", k_ - 2) for k_ in range(2, len(fs))})
                continue
            while k < len(fs):
                f = fs[k]
                if f == "s":
                    d[f"f{k}"] = xo.Int64
                    where[k] = (f"f{k}", None)
                    k += 1
                    continue
                if f[0] == "r":
                    t = xo.Ref[self.cls[int(f[1:])]]
                else:
                    ms = [int(x) for x in f[1:].split("+")]
                    t = meta_u(f"Rg{tag}U{i}x{k}", (xo.UnionRef,), {"_reftypes": []})
                    late.append((t, ms))
                n = 1
                while arrays and k + n < len(fs) and fs[k + n] == f:
                    n += 1
                if n > 1:
                    d[f"f{k}"] = t[n]
                    for j in range(n):
                        where[k + j] = (f"f{k}", j)
                else:
                    d[f"f{k}"] = t
                    where[k] = (f"f{k}", None)
                k += n
            name = f"Rg{tag}N{i}"
            self.names.append(name)
            self.where.append(where)
            self.cls.append(meta_s(name, (xo.Struct,), d))
        for t, ms in late:
            t._reftypes = [self.cls[m] for m in ms]

    def make(self, ci, kw, buf):
        """a new node of class ci (scalar keywords kw) in buf"""
        if ci == self.dyn:
            return self.cls[ci](len(self.u[ci]) - 2, _buffer=buf)
        return self.cls[ci](**kw, _buffer=buf)

    def header(self, ci):
        """the scalar words of a new dynamic array node"""
        return [16 + 8 * sum(2 if f[0] == "u" else 1 for f in self.u[ci][2:]), len(self.u[ci]) - 2]

    def get(self, o, ci, k):
        if ci == self.dyn:
            if k < 2:
                return [int(o._get_size()), len(o)][k]
            return o[k - 2]
        name, j = self.where[ci][k]
        v = getattr(o, name)
        return v if j is None else v[j]

    def set(self, o, ci, k, val):
        if ci == self.dyn:
            o[k - 2] = val
            return
        name, j = self.where[ci][k]
        if j is None:
            setattr(o, name, val)
        else:
            getattr(o, name)[j] = val

    def size(self, i):
        return sum(16 if f[0] == "u" else 8 for f in self.u[i])

    def foff(self, i, k):
        return sum(16 if f[0] == "u" else 8 for f in self.u[i][:k])

    def members(self, i, k):
        f = self.u[i][k]
        return [int(f[1:])] if f[0] == "r" else [int(x) for x in f[1:].split("+")]


class CaseRun:
    def __init__(self, xo, cfg, u, tag):
        self.xo, self.cfg, self.u = xo, cfg, u
        self.C = Classes(xo, u, tag, arrays=bool(cfg.get("arrays")), dyn=cfg.get("dyn"))
        self.lines, self.expect, self.fail, self.tags = [], [], [], collections.Counter()
        self.ops_done = []
        self.handles = []          # (object, class index) in creation order
        self.raw = []              # (offset, size)

    def failure(self, key, what, prop="C08"):
        if isinstance(prop, tuple):
            for p_ in prop:
                self.failure(key, what, p_)
            return
        self.fail.append(common.Failure("oracle", f"{prop}:rg-{key}", what,
                                        {"component": "rg", "config": self.cfg, "universe": self.u, "ops": list(self.ops_done)}))

    # ------------------------------------------------------------------ observation
    def mem(self):
        return alloc.buf_bytes(self.b)

    def state_line(self, aux=False):
        b, handles = (self.xb, self.xhandles) if aux else (self.b, self.handles)
        parts = []
        for (o, ci) in handles:
            for k, f in enumerate(self.u[ci]):
                if f == "s":
                    continue
                v = self.C.get(o, ci, k)
                idx = 0
                if f[0] == "u":
                    idx = int(self.xo.Int64._from_buffer(b, o._offset + self.C.foff(ci, k) + 8))
                parts.append(f"{o._offset}.{k}={'N' if v is None else v._offset}/{idx}")
        return f"cap {b.capacity} sum {common.cksum(alloc.buf_bytes(b))} refs [{' '.join(parts)}]"

    def tree_size(self, o, ci, onpath=()):
        """number of nodes a copy into another buffer creates (referents are duplicated per path); None on a cycle"""
        if o._offset in onpath:
            return None
        n = 1
        for k, f in enumerate(self.u[ci]):
            if f == "s":
                continue
            v = self.C.get(o, ci, k)
            if v is not None:
                m = self.tree_size(v, self.C.names.index(type(v).__name__), onpath + (o._offset,))
                if m is None or n + m > 300:
                    return None
                n += m
        return n

    def preorder(self, o, ci, out):
        out.append((o, ci))
        for k, f in enumerate(self.u[ci]):
            if f != "s":
                v = self.C.get(o, ci, k)
                if v is not None:
                    self.preorder(v, self.C.names.index(type(v).__name__), out)
        return out

    def deep_equal(self, a, b, ci, what, depth=0):
        """value equality along every path (scalars, nulls, classes of referents)"""
        for k, f in enumerate(self.u[ci]):
            x, y = self.C.get(a, ci, k), self.C.get(b, ci, k)
            if f == "s":
                if int(x) != int(y):
                    self.failure("xcopy-scalar", f"{what}: depth {depth} field {k} reads {y}, the source {x}", prop="C09")
                    return False
            elif (x is None) != (y is None) or (x is not None and type(x) is not type(y)):
                self.failure("xcopy-referent", f"{what}: depth {depth} field {k} of the copy is {y!r}, of the source {x!r}", prop="C09")
                return False
            elif x is not None and not self.deep_equal(x, y, self.C.names.index(type(x).__name__), what, depth + 1):
                return False
        return True

    def do_xcopy(self, h, ci, src_aux, what):
        """`Cls(h, _buffer=<the other buffer>)`: h lives in the main buffer (src_aux False) or in the second one"""
        sb, db = (self.xb, self.b) if src_aux else (self.b, self.xb)
        dh = self.handles if src_aux else self.xhandles
        simg = alloc.buf_bytes(sb)
        dimg = alloc.buf_bytes(db)
        dext = [(o._offset, self.C.size(c_)) for (o, c_) in dh] + (list(self.raw) if src_aux else [])
        self.emit(("xback " if src_aux else "xcopy ") + str(h._offset))
        n = self.C.cls[ci](h, _buffer=db)
        fresh = self.preorder(n, ci, [])
        dh.extend(fresh)
        self.expect.append(f"obj {n._offset} " + self.state_line(aux=not src_aux))
        self.tags["xcopy.nodes"] += len(fresh)
        if alloc.buf_bytes(sb) != simg:
            self.failure("xcopy-wrote-source", f"{what}: copying into another buffer changed the source buffer", prop="C09")
        dnow = alloc.buf_bytes(db)
        for (o, sz) in dext:
            if dnow[o:o + sz] != dimg[o:o + sz]:
                self.failure("xcopy-wrote-live", f"{what}: the live region ({o},{sz}) of the destination changed", prop=("C09", "C03"))
                break
        seen = list(dext)
        for (o, c_) in fresh:
            if o._buffer is not db:
                self.failure("xcopy-not-in-destination", f"{what}: a node of the copy lives in another buffer than the copy", prop=("C09", "C08"))
                break
            e = (o._offset, self.C.size(c_))
            if any(e[0] < q + m and q < e[0] + e[1] for (q, m) in seen if m and e[1]):
                self.failure("xcopy-overlap", f"{what}: node {e} of the copy overlaps a live region or another node of the copy", prop=("C09", "C04"))
                break
            seen.append(e)
        self.deep_equal(h, n, ci, what)
        return n

    def check_refs(self, what):
        """every reference of every live node, decoded from the raw bytes, denotes a live node of the member class"""
        mem = self.mem()
        where = {o._offset: ci for (o, ci) in self.handles}
        for (o, ci) in self.handles:
            if o._buffer is not self.b:
                self.failure("handle-left-buffer", f"{what}: a node's handle no longer points into its buffer")
                return
            if o._offset + self.C.size(ci) > self.b.capacity:
                self.failure("node-out-of-bounds", f"{what}: node at {o._offset} size {self.C.size(ci)} capacity {self.b.capacity}")
                return
            for k, f in enumerate(self.u[ci]):
                if f == "s":
                    continue
                slot = o._offset + self.C.foff(ci, k)
                rel = struct.unpack_from("<q", mem, slot)[0]
                v = self.C.get(o, ci, k)
                if rel == NULL:
                    if v is not None:
                        self.failure("null-not-none", f"{what}: null slot {slot} reads {v!r}")
                    if f[0] == "u" and struct.unpack_from("<q", mem, slot + 8)[0] != -1:
                        self.failure("null-member-index", f"{what}: null union slot {slot} has member index "
                                     f"{struct.unpack_from('<q', mem, slot + 8)[0]}")
                    continue
                tgt = slot + rel
                ms = self.C.members(ci, k)
                if f[0] == "u":
                    idx = struct.unpack_from("<q", mem, slot + 8)[0]
                    if not (0 <= idx < len(ms)):
                        self.failure("member-index-range", f"{what}: slot {slot} member index {idx} of {len(ms)}")
                        continue
                    want = ms[idx]
                else:
                    want = ms[0]
                if where.get(tgt) != want:
                    self.failure("dangling-or-wrong-class",
                                 f"{what}: slot {slot} (node {o._offset} field {k}) denotes {tgt}: "
                                 f"{'no live node there' if tgt not in where else 'a node of class %d' % where[tgt]}, member class {want}")
                    continue
                if v is None or v._offset != tgt or type(v).__name__ != self.C.names[want] or v._buffer is not self.b:
                    self.failure("reader-disagrees", f"{what}: slot {slot} bytes denote {tgt} class {want}, the reader returned {v!r}")

    def extents(self):
        return [(o._offset, self.C.size(ci)) for (o, ci) in self.handles] + list(self.raw)

    def check_fresh(self, off, size, before, what):
        if off + size > self.b.capacity:
            self.failure("fresh-out-of-bounds", f"{what}: new node at {off} size {size}, capacity {self.b.capacity}")
        for (o, n) in before:
            if n and size and off < o + n and o < off + size:
                self.failure("fresh-overlaps-live", f"{what}: new node ({off},{size}) overlaps live ({o},{n})")
                break

    # ------------------------------------------------------------------ operations
    def emit(self, line):
        self.lines.append(line)

    def start(self):
        c = self.cfg
        self.b = alloc.make_buffer(self.xo, c["kind"], c["cap"], c["align"], c["grow_step"])
        self.fb = alloc.make_buffer(self.xo, "numpy", 256, 8, None)      # a foreign buffer
        self.emit(f"univ {univ_word(self.u)}")
        self.expect.append("ok [" + ", ".join(str(self.C.size(i) if i == self.C.dyn else self.C.cls[i]._size) for i in range(len(self.u))) + "]")
        self.emit(f"buf {c['cap']} {c['align']} {c['grow_step'] if c['grow_step'] is not None else '-'}")
        self.expect.append("ok " + self.state_line())
        # a second buffer: destination (and source) of copies across buffers
        x = c.get("x") or {"kind": "numpy", "cap": 64, "align": 8, "grow_step": None}
        self.xb = alloc.make_buffer(self.xo, x["kind"], x["cap"], x["align"], x["grow_step"])
        self.xhandles = []
        self.emit(f"xbuf {x['cap']} {x['align']} {x['grow_step'] if x['grow_step'] is not None else '-'}")
        self.expect.append("ok " + self.state_line(aux=True))

    def kw(self, ci, vs):
        if ci == self.C.dyn:
            return {}
        ks = [k for k, f in enumerate(self.u[ci]) if f == "s"]
        return {f"f{k}": v for k, v in zip(ks, vs)}

    def step(self, op):
        self.ops_done.append(op)
        kind = op[0]
        self.tags[kind] += 1
        if self.C.dyn is not None:
            try:
                on = op[1] if kind == "new" else self.handles[op[1]][1] if kind not in ("alloc", "grow", "xback") else None
                if on == self.C.dyn or (kind == "bindval" and op[3] == self.C.dyn) or (kind == "bindobj" and self.handles[op[3]][1] == self.C.dyn):
                    self.tags["dynamic-array-node." + kind] += 1
            except Exception:
                pass
        what = " ".join(map(str, op))
        mem0, ext0 = self.mem(), self.extents()
        # the only previously live region the operation may change: the node it is applied to (write through a reference: the referent)
        may = set()
        try:
            if kind in ("bindobj", "bindnull", "bindval", "setscal", "upd", "bindbad"):
                may.add(int(self.handles[op[1]][0]._offset))
            elif kind == "setvia":
                t0 = self.C.get(self.handles[op[1]][0], self.handles[op[1]][1], op[2])
                if t0 is not None:
                    may.add(int(t0._offset))
        except Exception:
            pass
        try:
            if kind == "new":
                _, ci, vs = op
                before = self.extents()
                self.emit(f"new {ci} {','.join(map(str, vs)) or '-'}")
                o = self.C.make(ci, self.kw(ci, vs), self.b)
                self.handles.append((o, ci))
                self.expect.append(f"obj {o._offset} " + self.state_line())
                self.check_fresh(o._offset, self.C.size(ci), before, what)
            elif kind == "bindobj":
                _, hi, k, ti = op
                (h, hci), t = self.handles[hi], self.handles[ti][0]
                cap, chunks = self.b.capacity, [(c.start, c.end) for c in self.b.chunks]
                self.emit(f"bindobj {h._offset} {k} {t._offset}")
                self.C.set(h, hci, k, t)
                self.expect.append("ok " + self.state_line())
                got = self.C.get(h, hci, k)
                if got is None or got._offset != t._offset or got._buffer is not self.b:
                    self.failure("alias-not-same-object", f"{what}: bound node at {t._offset}, the reference reads {got!r}", prop=("C08", "C10"))
                if (cap, chunks) != (self.b.capacity, [(c.start, c.end) for c in self.b.chunks]):
                    self.failure("alias-allocated", f"{what}: binding an object of the same buffer allocated")
            elif kind == "bindbad":
                # an object whose class is NOT a member of the union: refused, nothing changes (the model's bindObj leaves the state)
                _, hi, k, ti = op
                (h, hci), t = self.handles[hi], self.handles[ti][0]
                self.emit(f"bindobj {h._offset} {k} {t._offset}")
                try:
                    self.C.set(h, hci, k, t)
                    self.failure("nonmember-accepted", f"{what}: a {type(t).__name__} was stored in a union reference of "
                                 f"{[self.C.names[m] for m in self.C.members(hci, k)]}", prop=("C11", "C08"))
                except Exception as e:
                    # any exception is a refusal (the ValueError's message formats the offered object: a RecursionError when
                    # that object lies on a cycle of references)
                    self.tags["bindbad.refused:" + type(e).__name__] += 1
                self.expect.append("ok " + self.state_line())
                if self.mem() != mem0:
                    self.failure("refusal-changed-bytes", f"{what}: the refused binding changed the buffer", prop="C11")
            elif kind == "bindnull":
                _, hi, k = op
                h, hci = self.handles[hi]
                self.emit(f"bindnull {h._offset} {k}")
                self.C.set(h, hci, k, None)
                self.expect.append("ok " + self.state_line())
                if self.C.get(h, hci, k) is not None:
                    self.failure("null-not-none", f"{what}: reads {self.C.get(h, hci, k)!r}", prop=("C08", "C10"))
            elif kind == "bindval":
                _, hi, k, ci, vs, variant = op
                h, hci = self.handles[hi]
                before = self.extents()
                self.emit(f"bindval {h._offset} {k} {ci} {','.join(map(str, vs)) or '-'}")
                plain = [None] * (len(self.u[ci]) - 2) if ci == self.C.dyn else self.kw(ci, vs)
                if variant == "foreign":
                    val = self.C.make(ci, self.kw(ci, vs), self.fb)
                elif self.u[hci][k][0] == "u":
                    val = (self.C.names[ci], plain)
                else:
                    val = plain
                self.C.set(h, hci, k, val)
                n = self.C.get(h, hci, k)
                if n is None:
                    self.failure("value-bound-null", f"{what}: reads None")
                    self.expect.append("ok ?")
                    return False
                self.handles.append((n, ci))
                self.expect.append("ok " + self.state_line())
                if n._buffer is not self.b:
                    self.failure("copy-not-in-holder-buffer", f"{what}: the referent lives in another buffer")
                self.check_fresh(n._offset, self.C.size(ci), before, what)
                for kk, v in self.kw(ci, vs).items():
                    if int(getattr(n, kk)) != v:
                        self.failure("copy-value", f"{what}: {kk} reads {getattr(n, kk)} not {v}")
            elif kind == "setscal":
                _, hi, k, v = op
                h = self.handles[hi][0]
                self.emit(f"setscal {h._offset} {k} {v}")
                setattr(h, f"f{k}", v)
                self.expect.append("ok " + self.state_line())
            elif kind == "setvia":
                _, hi, k, j, v = op
                h, hci = self.handles[hi]
                self.emit(f"setvia {h._offset} {k} {j} {v}")
                t = self.C.get(h, hci, k)
                setattr(t, f"f{j}", v)
                self.expect.append("ok " + self.state_line())
                for (o, ci) in self.handles:
                    if o._offset == t._offset and int(getattr(o, f"f{j}")) != v:
                        self.failure("write-through-ref-not-visible", f"{what}: the original handle reads {getattr(o, 'f%d' % j)}")
                if int(getattr(self.C.get(h, hci, k), f"f{j}")) != v:
                    self.failure("write-through-ref-lost", f"{what}: the reference reads another value")
            elif kind == "copy":
                _, hi = op
                h, ci = self.handles[hi]
                before = self.extents()
                self.emit(f"copy {h._offset}")
                n = self.C.cls[ci](h, _buffer=self.b)
                self.handles.append((n, ci))
                self.expect.append(f"obj {n._offset} " + self.state_line())
                self.check_fresh(n._offset, self.C.size(ci), before, what)
                for k, f in enumerate(self.u[ci]):
                    a, b = self.C.get(h, ci, k), self.C.get(n, ci, k)
                    if f == "s":
                        if int(a) != int(b):
                            self.failure("copy-scalar", f"{what}: field {k} reads {b}, the source {a}", prop="C09")
                    elif (a is None) != (b is None) or (a is not None and (a._offset != b._offset or type(a) is not type(b)
                                                                           or b._buffer is not self.b)):
                        self.failure("copy-referent", f"{what}: field {k} of the copy denotes {b!r}, of the source {a!r} "
                                     "(same buffer: the same referent is expected)", prop="C09")
            elif kind == "xcopy":
                _, hi = op
                h, ci = self.handles[hi]
                if self.tree_size(h, ci) is None:
                    self.tags["xcopy.skipped-cyclic-or-huge"] += 1
                else:
                    self.do_xcopy(h, ci, False, what)
            elif kind == "xback":
                _, xi = op
                if xi < len(self.xhandles):
                    h, ci = self.xhandles[xi]
                    if self.tree_size(h, ci) is not None:
                        before = self.extents()
                        n = self.do_xcopy(h, ci, True, what)
                        self.check_fresh(n._offset, self.C.size(ci), before, what)
            elif kind == "upd":
                _, hi, ti = op
                (h, ci), (t, _) = self.handles[hi], self.handles[ti]
                cap, chunks = self.b.capacity, [(c.start, c.end) for c in self.b.chunks]
                self.emit(f"upd {h._offset} {t._offset}")
                h._update(t)
                self.expect.append("ok " + self.state_line())
                if (cap, chunks) != (self.b.capacity, [(c.start, c.end) for c in self.b.chunks]):
                    self.failure("update-allocated", f"{what}: updating a node from a node of the same buffer allocated")
                for k, f in enumerate(self.u[ci]):
                    a, b = self.C.get(t, ci, k), self.C.get(h, ci, k)
                    if f == "s":
                        if int(a) != int(b):
                            self.failure("update-scalar", f"{what}: field {k} reads {b}, the source {a}", prop="C10")
                    elif (a is None) != (b is None) or (a is not None and (a._offset != b._offset or type(a) is not type(b))):
                        self.failure("update-referent", f"{what}: field {k} denotes {b!r}, the source's {a!r}", prop=("C08", "C10"))
            elif kind == "alloc":
                _, n, al = op
                self.emit(f"alloc {n} {'aligned' if al else 'packed'}")
                o = self.b.allocate(n, align=al)
                self.raw.append((o, n))
                self.expect.append("ok " + self.state_line())
            elif kind == "grow":
                _, n = op
                self.emit(f"grow {n}")
                self.b.grow(n)
                self.expect.append("ok " + self.state_line())
        except Exception as e:
            if len(self.expect) < len(self.lines):
                self.expect.append(f"err {type(e).__name__}")
            self.failure(f"raises:{kind}:{type(e).__name__}", f"{what}: {type(e).__name__}: {str(e)[:200]}")
            return False
        mem1 = self.mem()
        for (o, n) in ext0:
            if o not in may and mem1[o:o + n] != mem0[o:o + n]:
                self.failure("writes-outside", f"{what}: the live region ({o},{n}) - not the object operated on, not newly created - changed",
                             prop="C03")
                break
        self.check_refs(what)
        return not self.fail

    # ------------------------------------------------------------------ generation
    def random_op(self, r):
        hs = self.handles
        refslots = [(hi, k) for hi, (_, ci) in enumerate(hs) for k, f in enumerate(self.u[ci]) if f != "s"]
        choice = r.choice(["new"] * 3 + ["copy"] * 2 + ["upd"] * 2 + ["bindobj"] * 4 + ["bindval"] * 3 + ["bindnull"] + ["setscal"] * 2 + ["setvia"] * 3
                          + ["alloc"] * 2 + ["grow"] + ["bindbad"] * 2 + ["xcopy"] * 2 + ["xback"])
        val = lambda: r.choice([0, 1, 255, 2 ** 31, 2 ** 62 + 5, r.randrange(2 ** 63)])
        if choice == "new" or not hs:
            ci = r.randrange(len(self.u))
            if ci == self.C.dyn:
                return ("new", ci, self.C.header(ci))
            n = sum(1 for f in self.u[ci] if f == "s")
            return ("new", ci, [val() for _ in range(r.randrange(n + 1))])
        if choice == "copy":
            return ("copy", r.randrange(len(hs)))
        if choice == "xcopy":
            return ("xcopy", r.randrange(len(hs)))
        if choice == "xback":
            if self.xhandles:
                return ("xback", r.randrange(len(self.xhandles)))
            return ("xcopy", r.randrange(len(hs)))
        if choice == "upd":
            hi = r.randrange(len(hs))
            return ("upd", hi, r.choice([ti for ti, (_, ci) in enumerate(hs) if ci == hs[hi][1]]))
        if choice == "bindbad":
            cands = [(hi, k, ti) for hi, k in refslots if self.u[hs[hi][1]][k][0] == "u"
                     for ti, (_, ci) in enumerate(hs) if ci not in self.C.members(hs[hi][1], k)]
            if cands:
                return ("bindbad",) + r.choice(cands)
            choice = "bindobj"
        if choice in ("bindobj", "bindval", "bindnull", "setvia") and not refslots:
            choice = "setscal"
        if choice == "bindobj":
            hi, k = r.choice(refslots)
            ms = self.C.members(hs[hi][1], k)
            cands = [ti for ti, (_, ci) in enumerate(hs) if ci in ms]
            if not cands:
                choice = "bindval"
            else:
                return ("bindobj", hi, k, r.choice(cands))
        if choice == "bindval":
            hi, k = r.choice(refslots)
            ci = r.choice(self.C.members(hs[hi][1], k))
            if ci == self.C.dyn:
                return ("bindval", hi, k, ci, self.C.header(ci), r.choice(["plain", "foreign"]))
            n = sum(1 for f in self.u[ci] if f == "s")
            return ("bindval", hi, k, ci, [val() for _ in range(r.randrange(n + 1))], r.choice(["plain", "foreign"]))
        if choice == "bindnull":
            hi, k = r.choice(refslots)
            return ("bindnull", hi, k)
        if choice == "setvia":
            cands = []
            for hi, k in refslots:
                t = self.C.get(hs[hi][0], hs[hi][1], k)
                if t is not None:
                    ci = self.C.names.index(type(t).__name__)
                    for j, f in enumerate(self.u[ci]):
                        if f == "s" and ci != self.C.dyn:
                            cands.append((hi, k, j))
            if cands:
                hi, k, j = r.choice(cands)
                return ("setvia", hi, k, j, val())
            choice = "setscal"
        if choice == "setscal":
            cands = [(hi, k) for hi, (_, ci) in enumerate(hs) for k, f in enumerate(self.u[ci]) if f == "s" and ci != self.C.dyn]
            if cands:
                hi, k = r.choice(cands)
                return ("setscal", hi, k, val())
            choice = "alloc"
        if choice == "alloc":
            n = r.choice([0, 1, 3, 8, 16, 40, 100]) if r.random() < 0.8 else self.b.capacity + r.choice([0, 1, 9])
            return ("alloc", n, r.random() < 0.7)
        return ("grow", r.choice([0, 1, 8, 64]))

    def run_random(self, r, nops):
        self.start()
        for _ in range(nops):
            if not self.step(self.random_op(r)):
                break
        return self

    def run_fixed(self, ops):
        self.start()
        for op in ops:
            op = tuple(op)
            if op[0] in ("bindobj", "bindbad", "bindnull", "bindval", "setscal", "setvia", "copy", "upd", "xcopy") and op[1] >= len(self.handles):
                continue
            if op[0] == "upd" and op[2] >= len(self.handles):
                continue
            if op[0] in ("bindobj", "bindbad") and op[3] >= len(self.handles):
                continue
            if op[0] == "setvia" and self.C.get(self.handles[op[1]][0], self.handles[op[1]][1], op[2]) is None:
                continue
            if not self.step(op):
                break
        return self


def random_cfg(r):
    return {"kind": r.choice(alloc.KINDS), "cap": r.choice([0, 8, 16, 64, 64, 200, 1000]),
            "align": r.choice([1, 2, 8, 8, 16, 64]), "grow_step": r.choice([None, None, 1, 24, 64, 1000]),
            "arrays": r.random() < 0.5,
            "x": {"kind": r.choice(alloc.KINDS), "cap": r.choice([0, 8, 64, 64, 200]), "align": r.choice([1, 8, 8, 16, 64]),
                  "grow_step": r.choice([None, None, 1, 24, 1000])}}


def corpus_cases():
    u = [["s", "s"], ["s", "r0"], ["u0+1", "s", "r1"]]
    return [
        # alias, then growth by a node that does not fit, write through the reference afterwards
        ({"kind": "numpy", "cap": 64, "align": 8, "grow_step": None}, u,
         [("new", 0, [5, 6]), ("new", 1, [7]), ("bindobj", 1, 1, 0), ("new", 2, [9]), ("bindobj", 2, 0, 1), ("bindobj", 2, 2, 1),
          ("alloc", 64, True), ("setvia", 2, 2, 0, 44), ("setvia", 1, 1, 1, 45), ("bindval", 2, 0, 0, [1, 2], "plain"),
          ("bindval", 2, 2, 1, [3], "foreign"), ("copy", 2), ("copy", 1), ("bindnull", 2, 0), ("grow", 8), ("setvia", 2, 2, 0, 46),
          ("copy", 2), ("setvia", 5, 2, 0, 47), ("upd", 2, 5), ("upd", 5, 5), ("bindnull", 5, 0), ("upd", 2, 5)]),
        # a reference stored at a higher address than its referent and the other way round; exactly full buffer
        ({"kind": "bytearray", "cap": 32, "align": 1, "grow_step": 24}, u,
         [("new", 1, [1]), ("new", 0, [2, 3]), ("bindobj", 0, 1, 1), ("bindval", 0, 1, 0, [], "plain"), ("alloc", 0, False),
          ("new", 2, []), ("bindobj", 3, 0, 0), ("bindobj", 3, 2, 0), ("setvia", 3, 0, 0, 2 ** 62 + 5), ("copy", 3), ("bindnull", 3, 2), ("copy", 3)]),
        # runs of identical reference fields held as static arrays of references
        ({"kind": "numpy", "cap": 16, "align": 8, "grow_step": None, "arrays": True}, [["s"], ["r0", "r0", "r0", "u0", "u0", "s"]],
         [("new", 0, [5]), ("new", 1, [9]), ("bindobj", 1, 1, 0), ("bindobj", 1, 4, 0), ("bindval", 1, 2, 0, [7], "plain"),
          ("bindval", 1, 3, 0, [8], "foreign"), ("copy", 1), ("bindnull", 1, 1), ("bindnull", 1, 4), ("upd", 4, 1),
          ("setvia", 4, 2, 0, 99), ("upd", 1, 4), ("alloc", 300, True), ("setvia", 1, 3, 0, 98)]),
        # a union reference, first field of its struct, bound to that very struct (relative offset 0), to a later class, a cycle
        ({"kind": "numpy", "cap": 64, "align": 8, "grow_step": None}, [["s"], ["u1+2+0", "s", "u2"], ["u1", "s"]],
         [("new", 1, [5]), ("bindobj", 0, 0, 0), ("setvia", 0, 0, 1, 6), ("new", 2, [7]), ("bindobj", 1, 0, 0), ("bindobj", 0, 2, 1),
          ("setvia", 1, 0, 1, 8), ("copy", 0), ("upd", 2, 0), ("alloc", 200, True), ("setvia", 2, 0, 1, 9), ("bindnull", 0, 0),
          ("bindval", 0, 0, 2, [3], "plain"), ("bindval", 0, 0, 1, [4], "foreign")]),
        # two unions with different member lists: a class stored through one, then offered to the other (refused, nothing changes)
        ({"kind": "numpy", "cap": 64, "align": 8, "grow_step": None}, [["s"], ["s", "s"], ["u0+1", "u0", "u1+0"]],
         [("new", 0, [8]), ("new", 1, [1, 2]), ("new", 2, []), ("bindobj", 2, 0, 1), ("bindbad", 2, 1, 1), ("bindobj", 2, 2, 1),
          ("bindbad", 2, 1, 2), ("bindobj", 2, 1, 0), ("bindbad", 2, 1, 1), ("bindbad", 2, 0, 2), ("copy", 2)]),
        # copies into another buffer and back: a referent reached twice is duplicated twice; unions; nulls
        ({"kind": "numpy", "cap": 64, "align": 8, "grow_step": None, "x": {"kind": "bytearray", "cap": 8, "align": 16, "grow_step": 24}},
         [["s", "s"], ["s", "r0", "r0"], ["u0+1", "r1", "s", "u1+0"]],
         [("new", 0, [5, 6]), ("new", 1, [7]), ("bindobj", 1, 1, 0), ("bindobj", 1, 2, 0), ("new", 2, [9]), ("bindobj", 2, 0, 1),
          ("bindobj", 2, 1, 1), ("bindobj", 2, 3, 0), ("xcopy", 2), ("xcopy", 0), ("xback", 1), ("setvia", 2, 1, 0, 77), ("xcopy", 2),
          ("xback", 0), ("bindnull", 2, 0), ("xcopy", 2), ("copy", 2)]),
        # a DYNAMIC array of references (class 2: size word, length word, three slots) as a node and as a referent
        ({"kind": "numpy", "cap": 64, "align": 8, "grow_step": None, "dyn": 2}, [["s"], ["s", "r0"], ["s", "s", "r1", "r1", "r1"], ["r2", "s", "u2+0"]],
         [("new", 0, [4]), ("new", 1, [5]), ("bindobj", 1, 1, 0), ("new", 2, [40, 3]), ("bindobj", 2, 2, 1), ("bindobj", 2, 4, 1),
          ("new", 3, [6]), ("bindobj", 3, 0, 2), ("bindobj", 3, 2, 2), ("setvia", 2, 2, 0, 9), ("copy", 2), ("copy", 3), ("xcopy", 3),
          ("bindval", 3, 0, 2, [40, 3], "plain"), ("bindval", 3, 2, 2, [40, 3], "foreign"), ("bindnull", 2, 2), ("upd", 4, 2), ("xcopy", 2),
          ("xback", 0), ("alloc", 300, True), ("setvia", 2, 4, 0, 11)]),
        # capacity 0, members listed in reverse order
        ({"kind": "numpy", "cap": 0, "align": 64, "grow_step": 1}, [["s"], ["s", "s"], ["u1+0", "u0"]],
         [("new", 2, []), ("new", 0, [8]), ("new", 1, [1, 2]), ("bindobj", 0, 0, 1), ("bindobj", 0, 1, 1), ("bindobj", 0, 0, 2),
          ("setvia", 0, 0, 1, 77), ("bindval", 0, 1, 0, [4], "foreign"), ("bindval", 0, 0, 0, [5], "plain")]),
    ]


_tag = [0]


def _newtag():
    _tag[0] += 1
    return _tag[0]


def run_all(tier, seed, n=None):
    xo = common.import_xobjects()
    r = random.Random(seed * 104729 + 5)
    runs = []
    for cfg, u, ops in corpus_cases():
        runs.append(CaseRun(xo, cfg, u, _newtag()).run_fixed(ops))
    ncases, nops = (150, 40) if tier == "quick" else (8000, 70)
    if n:
        ncases = n
    for _ in range(ncases):
        cfg_, u_ = random_cfg(r), random_universe(r)
        if r.random() < 0.35:
            cfg_["dyn"] = add_dynamic_array(r, u_)
            cfg_["arrays"] = False
        runs.append(CaseRun(xo, cfg_, u_, _newtag()).run_random(r, r.randrange(2, nops)))
    answers = common.run_driver_sharded("rg", [c.lines for c in runs])
    mismatches, failures, tags, distinct, nlines = [], [], collections.Counter(), set(), 0
    for c, got in zip(runs, answers):
        tags.update(c.tags)
        tags["cases.reference-runs-held-as-static-arrays" if c.cfg.get("arrays") else "cases.reference-fields-only"] += 1
        failures.extend(c.fail)
        nlines += len(c.lines)
        if len(c.ops_done) >= 2:
            distinct.add((univ_word(c.u), repr(c.ops_done)))
        for i, (l, e, g) in enumerate(zip(c.lines, c.expect, got)):
            if e != g:
                mismatches.append(common.Failure(
                    "tie", f"rg-tie:{l.split()[0]}", f"op `{l}`: implementation `{e[:200]}` proof model `{g[:200]}`",
                    {"component": "rg", "config": c.cfg, "universe": c.u, "ops": list(c.ops_done), "line_index": i,
                     "impl": e[:400], "model": g[:400]}))
                break
    samples = [{"config": c.cfg, "universe": univ_word(c.u), "ops": [list(map(str, o)) for o in c.ops_done[:8]],
                "answers": [e[:160] for e in c.expect[:4]]} for c in runs[3:5]]
    return {"lines": nlines, "cases": len(runs), "mismatches": mismatches, "failures": failures, "tags": dict(tags),
            "samples": samples, "distinct": len(distinct)}


def replay(rep):
    xo = common.import_xobjects()
    c = CaseRun(xo, rep["config"], rep["universe"], _newtag()).run_fixed(rep["ops"])
    got = common.run_driver("rg", c.lines)
    mism = [(l, e, g) for l, e, g in zip(c.lines, c.expect, got) if e != g]
    return c.fail, mism
