"""Dependency-sorter component: random dependency sources for `topological_sort`, random class
universes (real xobjects classes of every kind) for `sort_classes`, line-protocol expectations for
the Lean model, and the model-independent oracle of C14 (+ real `add_kernels` builds)."""
import collections
import itertools
import random

from . import common

_uid = itertools.count()


def fmt_src(src):
    if not src:
        return "-"
    return ";".join(f"{c}:{','.join(map(str, ps))}" for c, ps in src.items())


def has_cycle(src):
    """independent DFS"""
    color = {}

    def dfs(u):
        color[u] = 1
        for v in src.get(u, []):
            if color.get(v, 0) == 1:
                return True
            if color.get(v, 0) == 0 and dfs(v):
                return True
        color[u] = 2
        return False

    return any(color.get(u, 0) == 0 and dfs(u) for u in list(src))


def random_source(r, closed=True):
    n = r.choice([0, 1, 2, 3, 4, 5, 6, 8, 12])
    names = list(range(n))
    r.shuffle(names)
    src = {}
    cyclic = r.random() < 0.3
    for i, c in enumerate(names):
        pool = names if cyclic else names[:i]
        k = r.choice([0, 0, 1, 1, 2, 3]) if pool else 0
        ps = [r.choice(pool) for _ in range(k)]
        if not closed and r.random() < 0.2:
            ps.append(100 + r.randrange(3))
        src[c] = ps
    # shuffle insertion order
    items = list(src.items())
    r.shuffle(items)
    return dict(items)


def check_topo_oracle(src, order, cyc, fails, ctx):
    """C14 on `topological_sort` for closed sources"""
    closed = all(p in src for ps in src.values() for p in ps)
    if not closed:
        return
    truth = has_cycle(src)
    if cyc != truth:
        fails.append(common.Failure("oracle", "C14:cycle-flag", f"has_cycle={cyc} but the graph {'has' if truth else 'has no'} cycle: {src}", ctx))
        return
    if cyc:
        return
    cnt = collections.Counter(order)
    dup = [k for k, v in cnt.items() if v > 1]
    if dup:
        fails.append(common.Failure("oracle", "C14:emitted-twice", f"{dup} listed more than once in {order} for {src}", ctx))
    if set(order) != set(src):
        fails.append(common.Failure("oracle", "C14:missing-class", f"order {order} does not list exactly the keys of {src}", ctx))
    pos = {}
    for i, c in enumerate(order):
        pos.setdefault(c, i)
    for c, ps in src.items():
        for p in ps:
            if p in pos and c in pos and not pos[p] < pos[c]:
                fails.append(common.Failure("oracle", "C14:order", f"{p} is a dependency of {c} but comes later in {order}", ctx))
                return


# ----------------------------------------------------------------------------- real classes


def random_universe(xo, r):
    """returns (classes: list of real classes incl. scalars, deps by index, roots: list of indices)"""
    uid = next(_uid)
    classes = [xo.Float64, xo.Int32]
    n = r.choice([1, 2, 3, 4, 5, 7])
    made = []
    for i in range(n):
        kind = r.choice(["struct", "struct", "struct", "empty", "array", "ref", "uref"])
        pool = [c for c in made if hasattr(c, "_gen_c_api")]
        name = f"K{uid}x{i}"
        if kind == "empty" or (kind in ("array", "ref", "uref") and not pool):
            c = type(name, (xo.Struct,), {}) if kind == "empty" else type(name, (xo.Struct,), {"v": xo.Float64})
        elif kind == "struct":
            fields = {}
            for j in range(r.choice([1, 2, 3])):
                ch = r.random()
                if ch < 0.35 or not pool:
                    fields[f"f{j}"] = r.choice([xo.Float64, xo.Int32])
                elif ch < 0.6:
                    fields[f"f{j}"] = r.choice(pool)
                elif ch < 0.75:
                    t = r.choice(pool)
                    fields[f"f{j}"] = t[:] if not _is_array(t) else t
                elif ch < 0.9:
                    t = r.choice([p for p in pool if not _is_ref(p)] or pool)
                    fields[f"f{j}"] = xo.Ref[t] if not _is_ref(t) else t
                else:
                    fields[f"f{j}"] = r.choice(pool)
            c = type(name, (xo.Struct,), fields)
        elif kind == "array":
            t = r.choice([p for p in pool if not _is_ref(p)] or [xo.Float64])
            c = t[:] if r.random() < 0.5 else t[3]
        elif kind == "ref":
            t = r.choice([p for p in pool if not _is_ref(p) and not _is_uref(xo, p)] or [None])
            c = xo.Ref[t] if t is not None else type(name, (xo.Struct,), {"v": xo.Int32})
        else:
            ms = [p for p in pool if not _is_ref(p) and not _is_uref(xo, p)]
            ms = r.sample(ms, min(len(ms), r.choice([1, 2]))) if ms else []
            c = type(name, (xo.UnionRef,), {"_reftypes": ms}) if ms else type(name, (xo.Struct,), {"v": xo.Int32})
            if ms and made and r.random() < 0.4:
                c._depends_on = [r.choice(made)]      # a union that also DECLARES a dependency (its member list must not grow by it)
        made.append(c)
    # extra declared dependencies, possibly cyclic
    structs = [c for c in made if isinstance(c, type) and issubclass(c, xo.Struct)]
    for c in structs:
        if r.random() < 0.25:
            c._depends_on = list(c._depends_on) + [r.choice(structs if r.random() < 0.4 else made)]
    return made


def _is_array(c):
    return hasattr(c, "_itemtype")


def _is_ref(c):
    return hasattr(c, "_reftype")


def _is_uref(xo, c):
    return isinstance(c, type) and issubclass(c, xo.UnionRef)


def closure_universe(roots):
    """walk the real classes: index by name in order of discovery; deps by name"""
    by_name, order = {}, []

    def deps_of(c):
        d = []
        if hasattr(c, "_get_inner_types"):
            d.extend(c._get_inner_types())
        if hasattr(c, "_depends_on"):
            d.extend(c._depends_on)
        return d

    todo = list(roots)
    while todo:
        c = todo.pop(0)
        if c.__name__ in by_name:
            continue
        by_name[c.__name__] = c
        order.append(c.__name__)
        todo.extend(deps_of(c))
    idx = {n: i for i, n in enumerate(order)}
    univ = {idx[n]: ([idx[d.__name__] for d in deps_of(by_name[n])], hasattr(by_name[n], "_gen_c_api")) for n in order}
    return by_name, idx, univ


def fmt_univ(univ):
    return ";".join(f"{c}:{','.join(map(str, ds))}:{1 if api else 0}" for c, (ds, api) in univ.items()) or "-"


def run_all(tier, seed):
    xo = common.import_xobjects()
    from xobjects.context import sort_classes, topological_sort, sources_from_classes

    r = random.Random(seed * 104729 + 5)
    lines, expect, ctxs = [], [], []
    fails, tags = [], collections.Counter()
    distinct = set()
    corpus = [
        {3: [1, 2, 2], 1: [0], 2: [0], 0: [], 4: []},      # O-15: a dependency-free class something depends on
        {0: [1], 1: [0], 2: []},
        {0: []}, {},
        {2: [1], 1: [0], 0: [], 3: [0, 0, 0]},
        {1: [0, 5]},                                         # parent that is not a key (not produced by sort_classes)
    ]
    n1 = 400 if tier == "quick" else 20000
    for k in range(n1 + len(corpus)):
        src = corpus[k] if k < len(corpus) else random_source(r, closed=r.random() < 0.85)
        ctx = {"component": "topo", "op": "topo", "source": {str(a): b for a, b in src.items()}}
        lines.append("topo " + fmt_src(src))
        try:
            order, cyc = topological_sort({a: list(b) for a, b in src.items()})
            expect.append(f"order {','.join(map(str, order))} cycle {'true' if cyc else 'false'}")
            check_topo_oracle(src, order, cyc, fails, ctx)
            tags["topo.cycle" if cyc else "topo.acyclic"] += 1
            if any(len(set(ps)) < len(ps) for ps in src.values()):
                tags["topo.multi-edge"] += 1
        except Exception as e:
            expect.append(f"err {type(e).__name__}")
            fails.append(common.Failure("oracle", f"C14:topo-raises:{type(e).__name__}", f"topological_sort({src}) raised {e}", ctx))
        ctxs.append(ctx)
        if len(src) >= 2:
            distinct.add(fmt_src(src))
    # real classes
    n2 = 120 if tier == "quick" else 3000
    builds = 4 if tier == "quick" else 150
    for k in range(n2):
        made = random_universe(xo, r)
        roots = r.sample(made, r.randrange(1, len(made) + 1))
        if r.random() < 0.3:
            roots = roots + [r.choice(roots)]       # repeated root
        # ---- classes a kernel description depends on (arguments and the return value): the roots of a kernel build
        if k % 2 == 0:
            pool = made + [xo.Float64, xo.Int32, xo.Int64]
            kargs = [xo.Arg(r.choice(pool), pointer=r.random() < 0.2, name=f"a{j}") for j in range(r.randrange(0, 4))]
            rett = r.choice([None, None] + pool)
            kern = xo.Kernel(args=kargs, ret=(xo.Arg(rett) if rett is not None else None))
            from xobjects.context import classes_from_kernels
            nm = {c.__name__: i for i, c in enumerate(pool)}
            want = sorted({nm[a.atype.__name__] for a in kargs if hasattr(a.atype, "_gen_c_api")}
                          | ({nm[rett.__name__]} if rett is not None and hasattr(rett, "_gen_c_api") else set()))
            kctx = {"component": "topo", "op": "kcls", "args": [a.atype.__name__ for a in kargs], "ret": getattr(rett, "__name__", None)}
            lines.append("kcls " + (",".join(f"{nm[a.atype.__name__]}:{1 if hasattr(a.atype, '_gen_c_api') else 0}" for a in kargs) or "-")
                         + " " + (f"{nm[rett.__name__]}:{1 if hasattr(rett, '_gen_c_api') else 0}" if rett is not None else "-"))
            try:
                got_cls = sorted({nm[c.__name__] for c in classes_from_kernels({"k": kern})})
                expect.append("classes " + ",".join(map(str, got_cls)))
                if got_cls != want:
                    fails.append(common.Failure("oracle", "C14:kernel-classes", f"kernel(args={kctx['args']}, ret={kctx['ret']}): classes_from_kernels gives {[pool[i].__name__ for i in got_cls]}, the argument and return classes with an API are {[pool[i].__name__ for i in want]}", kctx))
            except Exception as e:
                expect.append(f"err {type(e).__name__}")
                fails.append(common.Failure("oracle", f"C14:kernel-classes-raises:{type(e).__name__}", str(e)[:200], kctx))
            ctxs.append(kctx)
            tags["kcls"] += 1
        by_name, idx, univ = closure_universe(roots)
        ctx = {"component": "topo", "op": "sortc", "roots": [c.__name__ for c in roots],
               "universe": {n: {"deps": [d for d in univ[i][0]], "api": univ[i][1], "id": i} for n, i in idx.items()}}
        lines.append(f"sortc {','.join(str(idx[c.__name__]) for c in roots)} {fmt_univ(univ)}")
        srcgraph = {i: ds for i, (ds, _) in univ.items()}
        truth = has_cycle(srcgraph)
        members0 = {n: [m.__name__ for m in c._reftypes] for n, c in by_name.items() if _is_uref(xo, c)}
        try:
            out = sort_classes(list(roots))
            names = [c.__name__ for c in out]
            expect.append("order " + ",".join(str(idx[n]) for n in names))
            tags["sortc.ok"] += 1
            # building is repeatable: sorting changes no class (the member list of a union is its own), a second sort gives the same
            members1 = {n: [m.__name__ for m in c._reftypes] for n, c in by_name.items() if _is_uref(xo, c)}
            if members1 != members0:
                bad = [n for n in members0 if members0[n] != members1[n]]
                fails.append(common.Failure("oracle", "C14:sort-changed-a-class", f"sort_classes changed the member list of {bad}: "
                                            f"{[members0[n] for n in bad]} -> {[members1[n] for n in bad]} (the next build emits another enum)", ctx))
            else:
                again = [c.__name__ for c in sort_classes(list(roots))]
                if again != names:
                    fails.append(common.Failure("oracle", "C14:second-build-differs", f"sort_classes twice: {names} then {again}", ctx))
            if truth:
                fails.append(common.Failure("oracle", "C14:cycle-not-reported", f"cyclic dependencies but sort_classes returned {names}", ctx))
            cnt = collections.Counter(names)
            dup = [n for n, v in cnt.items() if v > 1]
            if dup:
                fails.append(common.Failure("oracle", "C14:emitted-twice", f"sort_classes lists {dup} more than once: {names}", ctx))
            want = {n for n, i in idx.items() if univ[i][1]}
            if set(names) != want:
                fails.append(common.Failure("oracle", "C14:missing-class", f"sort_classes returned {names}, reachable classes with an API are {sorted(want)}", ctx))
            pos = {}
            for i, n in enumerate(names):
                pos.setdefault(n, i)
            for n in names:
                for d in univ[idx[n]][0]:
                    dn = [m for m, j in idx.items() if j == d][0]
                    if dn in pos and not pos[dn] < pos[n]:
                        fails.append(common.Failure("oracle", "C14:order", f"{dn} is needed by {n} but is emitted later: {names}", ctx))
                        break
            if builds > 0 and not dup and not truth:
                builds -= 1
                tags["sortc.built"] += 1
                try:
                    c = xo.ContextCpu()
                    c.add_kernels(kernels={}, extra_classes=list(roots))
                except Exception as e:
                    fails.append(common.Failure("oracle", f"C14:build-fails:{type(e).__name__}", f"add_kernels(extra_classes={[x.__name__ for x in roots]}) failed: {str(e)[:200]}", ctx))
        except ValueError as e:
            if "cycles" in str(e):
                expect.append("cycle")
                tags["sortc.cycle"] += 1
                if not truth:
                    fails.append(common.Failure("oracle", "C14:false-cycle", f"sort_classes reports a cycle for an acyclic universe", ctx))
            else:
                expect.append(f"err ValueError")
                fails.append(common.Failure("oracle", "C14:sortc-raises", f"sort_classes raised {e}", ctx))
        except Exception as e:
            expect.append(f"err {type(e).__name__}")
            fails.append(common.Failure("oracle", f"C14:sortc-raises:{type(e).__name__}", f"sort_classes raised {e}", ctx))
        ctxs.append(ctx)
        distinct.add(lines[-1])
    # ---- hybrid classes: every declared dependency (hybrid class, plain struct, array class) is emitted, once, before the class
    for k in range(8 if tier == "quick" else 200):
        uid = f"{seed}x{k}x{r.randrange(10**6)}"
        Plain = type(f"HDP{uid}", (xo.Struct,), {"t": xo.Float64})
        Helper = type(f"HDH{uid}", (xo.HybridClass,), {"_xofields": {"q": xo.Int64}})
        PArr = Plain[:]
        pool = [(Plain, Plain.__name__), (Helper, Helper._XoStruct.__name__), (PArr, PArr.__name__)]
        deps = r.sample(pool, r.randrange(1, 4))
        hctx = {"component": "topo", "op": "hybrid-depends-on", "depends_on": [n for _, n in deps]}
        try:
            Elem = type(f"HDE{uid}", (xo.HybridClass,), {"_xofields": {"x": xo.Float64}, "_depends_on": [c for c, _ in deps]})
            names = [c.__name__ for c in sort_classes([Elem._XoStruct])]
            me = Elem._XoStruct.__name__
            for _c, dn in deps:
                if names.count(dn) != 1 or me not in names or names.index(dn) > names.index(me):
                    fails.append(common.Failure("oracle", "C14:declared-dependency-missing", f"hybrid class with _depends_on {hctx['depends_on']}: emission order {names}: {dn} is not emitted exactly once before {me}", hctx))
                    break
            tags["hybrid-depends-on"] += 1
        except ValueError as e:
            fails.append(common.Failure("oracle", "C14:false-cycle", f"hybrid class with _depends_on {hctx['depends_on']}: {str(e)[:120]}", hctx))
        except Exception as e:
            fails.append(common.Failure("oracle", f"C14:sortc-raises:{type(e).__name__}", f"hybrid class with _depends_on {hctx['depends_on']}: {str(e)[:160]}", hctx))
    # ---- several classes with ONE name ("in case of multiple classes with the same name, the last one is used"): the class emitted
    #      under that name is the last one given, and everything THAT class needs is emitted before it
    for k in range(6 if tier == "quick" else 150):
        uid = f"{seed}x{k}x{r.randrange(10**6)}"
        Aux = type(f"SNA{uid}", (xo.Struct,), {"t": xo.Float64})
        Aux2 = type(f"SNB{uid}", (xo.Struct,), {"u": xo.Int64})
        variants = [type(f"SNE{uid}", (xo.Struct,), {"v": xo.Float64}),
                    type(f"SNE{uid}", (xo.Struct,), {"v": xo.Float64, "a": Aux}),
                    type(f"SNE{uid}", (xo.Struct,), {"b": Aux2[:], "a": Aux})]
        given = [r.choice(variants) for _ in range(r.randrange(2, 4))]
        others = r.sample([Aux, Aux2], r.randrange(0, 2))
        roots = list(given)
        for o_ in others:
            roots.insert(r.randrange(len(roots) + 1), o_)
        last = [c for c in roots if c.__name__ == f"SNE{uid}"][-1]
        sctx = {"component": "topo", "op": "same-name", "roots": [f"{c.__name__}{sorted(f.name for f in getattr(c, '_fields', []))}" for c in roots]}
        try:
            out = sort_classes(list(roots))
            names = [c.__name__ for c in out]
            mine = [c for c in out if c.__name__ == last.__name__]
            if len(mine) != 1 or mine[0] is not last:
                fails.append(common.Failure("oracle", "C14:same-name-not-last", f"roots {sctx['roots']}: the class emitted as {last.__name__} is not the last one given ({names})", sctx))
            else:
                need = []
                for ft in [f.ftype for f in last._fields]:
                    need.append(ft.__name__)
                    if hasattr(ft, "_itemtype"):
                        need.append(ft._itemtype.__name__)
                need = [n for n in need if n.startswith(("SN", "ArrNSN"))]
                for dn in need:
                    if names.count(dn) != 1 or names.index(dn) > names.index(last.__name__):
                        fails.append(common.Failure("oracle", "C14:declared-dependency-missing", f"roots {sctx['roots']}: {last.__name__} (the last definition) needs {dn}, "
                                                    f"which is not emitted exactly once before it: {names}", sctx))
                        break
            tags["same-name"] += 1
        except Exception as e:
            fails.append(common.Failure("oracle", f"C14:sortc-raises:{type(e).__name__}", f"same-name roots {sctx['roots']}: {str(e)[:160]}", sctx))
    # ---- a class DERIVED from a class whose API has already been generated (`class Triangle(Point[3])`, tests/test_capi.py): its
    #      own API is emitted under its own name, once, after what it needs
    for k in range(3 if tier == "quick" else 60):
        uid = f"{seed}x{k}x{r.randrange(10**6)}"
        Pt = type(f"SBP{uid}", (xo.Struct,), {"x": xo.Float64, "y": xo.Float64})
        base = r.choice([Pt[3], Pt[:], Pt])
        bctx = {"component": "topo", "op": "subclass-after-generation", "base": base.__name__}
        try:
            if r.random() < 0.8:
                sources_from_classes(sort_classes([base]))          # the parent's API is generated first
            Tri = type(f"SBT{uid}", (base,), {})
            names = [c.__name__ for c in sort_classes([Tri])]
            srcs = sources_from_classes(sort_classes([Tri]))
            text = "\n".join(s_.source if hasattr(s_, "source") else str(s_) for s_ in srcs)
            if names.count(Tri.__name__) != 1 or Tri.__name__ not in text:
                fails.append(common.Failure("oracle", "C14:missing-class", f"class {Tri.__name__}({base.__name__}) defined after the API of {base.__name__} was "
                                            f"generated: sorted {names}; its own API is not in the emitted source", bctx))
            tags["subclass-after-generation"] += 1
        except Exception as e:
            fails.append(common.Failure("oracle", f"C14:sortc-raises:{type(e).__name__}", f"subclass of {base.__name__}: {str(e)[:160]}", bctx))
    got = common.run_driver("topo", lines)
    mism = []
    for l, e, g, ctx in zip(lines, expect, got, ctxs):
        if e != g:
            mism.append(common.Failure("tie", f"topo-tie:{l.split()[0]}", f"`{l[:200]}`: implementation `{e[:160]}` model `{g[:160]}`",
                                       dict(ctx, impl=e, model=g)))
    samples = [{"line": lines[i], "answer": expect[i]} for i in (0, len(corpus) + 3, n1 + len(corpus) + 1) if i < len(lines)]
    return {"lines": len(lines), "mismatches": mism, "failures": fails, "tags": dict(tags), "samples": samples,
            "distinct": len(distinct)}


def replay(rep):
    xo = common.import_xobjects()
    from xobjects.context import topological_sort
    fails = []
    if rep.get("op") == "topo":
        src = {int(a): b for a, b in rep["source"].items()}
        order, cyc = topological_sort({a: list(b) for a, b in src.items()})
        check_topo_oracle(src, order, cyc, fails, rep)
        print("topological_sort ->", order, cyc)
    else:
        print("sort_classes replay: universe", rep.get("universe"), "roots", rep.get("roots"))
        # rebuild the source the closure would produce and run the sorter on it
        src = {v["id"]: v["deps"] for v in rep["universe"].values()}
        order, cyc = topological_sort({a: list(b) for a, b in src.items()})
        check_topo_oracle(src, order, cyc, fails, rep)
        print("topological_sort on the closed source ->", order, cyc)
    return fails
