"""Source-specialiser component (C15, C16): generated annotated sources (all four annotations, the four placeholders,
included files) x four targets: exact text of the real `specialize_source` vs the Lean model; launch geometry of the real
KernelCupy/KernelPyopencl (driven with recording fakes) vs the model's `geometry`; and the model-independent oracles:
real CPU kernels (serial + OpenMP), host-simulated OpenCL/CUDA launches, qualifier-erased token equality of the
accessor API across targets, `__global` on every pointer, host compiler acceptance."""
import collections
import json
import os
import random
import re
import subprocess

import numpy as np

from . import common, types as T, capi

TARGETS = ["cpu_serial", "cpu_openmp", "opencl", "cuda"]
ANNOT = ("//vectorize_over", "//end_vectorize", "//only_for_context", "//include_file")
PLACEHOLDERS = ("/*gpukern*/", "/*gpufun*/", "/*gpuglmem*/", "/*restrict*/")


def hx(s):
    return s.encode("latin-1").hex() or "-"


def gen_src(r, files):
    """random annotated source (not necessarily valid C) and possibly an include file"""
    lines = []
    n = r.randrange(1, 12)
    inside = False
    if r.random() < 0.15:  # wholly unannotated text
        return "\n".join(r.choice(["  x[i] = y[i]*2;", "int a = 0;", "", "  // a comment", "#define FOO 1", "\tz = a / b; /* c */",
                                    "  s = \"//not\";", "double f(double* p){ return p[0]; }"]) for _ in range(n)) + r.choice(["", "\n"])
    for _ in range(n):
        k = r.choice(["plain", "plain", "qual", "vec", "end", "only", "only2", "weird", "incl", "bad"])
        if k == "plain":
            lines.append(r.choice(["  x[i] = y[i]*2;", "int a = 0;", "", "  // a comment", "#define FOO 1",
                                   "  if (a<b) { c(); }", "\tz = a / b; /* c */", "  s = \"//not\";"]))
        elif k == "qual":
            lines.append(r.choice(["/*gpukern*/ void f(const int n, /*gpuglmem*/ double* x){",
                                   "/*gpufun*/ double g(/*gpuglmem*/ const double* /*restrict*/ p){ return p[0]; }"]))
        elif k == "vec" and not inside:
            lines.append(r.choice(["int tid = 0; //vectorize_over tid n", "  //vectorize_over   ii   nn  ",
                                   "//vectorize_over k obj->n", "//vectorize_over j n/2",
                                   # a hand-written loop header in front of the annotation (as in tests/test_ref.py): the generated
                                   # loop replaces it, whatever range it names
                                   "for (int ii=0; ii<cap; ii++){ //vectorize_over ii n",
                                   "for (int64_t k=1; k<n; k++) { //vectorize_over k n"]))
            inside = True
        elif k == "end" and inside:
            lines.append(r.choice(["  //end_vectorize", "//end_vectorize"]))
            inside = False
        elif k == "only":
            lines.append("  z += 1; //only_for_context " + " ".join(r.sample(TARGETS, r.randrange(1, 4))))
        elif k == "only2":
            lines.append("#pragma omp foo //only_for_context cpu_openmp")
        elif k == "weird":
            lines.append(r.choice(["a /*gpuglmem*//*gpuglmem*/ b", "x //only_for_context", "//end_vectorize //only_for_context cuda",
                                   "/*gpufun*//*restrict*/", "/*gpukern*/ /*gpukern*/", "//only_for_context opencl //only_for_context cuda"]))
        elif k == "incl":
            fname = f"inc{len(files)}.h"
            body = r.choice([["int helper(int a){ return a; }"], ["  // inside   ", "q += 1; //only_for_context cuda", ""],
                             ["/*gpufun*/ int h2(/*gpuglmem*/ int* p){return p[0];}\t "]])
            files[fname] = body
            lines.append(f"//include_file {fname} for_context " + " ".join(r.sample(TARGETS, r.randrange(0, 4))))
        elif k == "bad":
            lines.append(r.choice(["//vectorize_over onlyone", "//include_file nofile.h for_context cpu_serial cuda",
                                   "//include_file missing_for", "//vectorize_over a b c"]))
            if "vectorize" in lines[-1]:
                inside = inside
    if inside:
        lines.append("//end_vectorize")
    return "\n".join(lines) + r.choice(["", "\n"])


def impl_spec(src, tgt, folder):
    from xobjects.specialize_source import specialize_source

    old = os.getcwd()
    os.chdir(folder)
    try:
        return "ok " + hx(specialize_source(src, tgt, search_in_folders=[folder]))
    except ValueError:
        return "err value"
    except AssertionError:
        return "err assertion"
    except IOError:
        return "err io"
    finally:
        os.chdir(old)


def strip_quals(text):
    """token stream with the target qualifiers removed"""
    toks = re.findall(r"[A-Za-z_][A-Za-z_0-9]*|\d+|\S", text)
    drop = {"__global", "__kernel", "__global__", "__device__", "restrict", "static", "inline"}
    return [t for t in toks if t not in drop]


_mu_uid = [0]


def methods_union_source():
    """accessor API of a UnionRef that declares `_methods` with pointer arguments: the generated dispatch function forwards pointers
    into object memory (not part of the Lean generator model: oracle + exact-text tie of the specialiser only)"""
    xo = common.import_xobjects()
    _mu_uid[0] += 1
    u = _mu_uid[0]
    A = type(xo.Struct)(f"MuA{u}", (xo.Struct,), {"length": xo.Float64})
    B = type(xo.Struct)(f"MuB{u}", (xo.Struct,), {"k": xo.Float64[:]})
    U = type(xo.UnionRef)(f"MuU{u}", (xo.UnionRef,), {"_reftypes": (A, B), "_methods": [
        xo.Method(c_name="track", args=[xo.Arg(xo.Float64, pointer=True, name="x"), xo.Arg(xo.Float64, pointer=True, const=True, name="px"),
                                        xo.Arg(xo.Int64, name="n")], ret=None),
        xo.Method(c_name="probe", args=[xo.Arg(xo.Int8, pointer=True, name="flags")], ret=xo.Arg(xo.Float64))]})
    return capi.impl_source(U)


def run_text(tier, seed, fails, mism, tags, samples, api_types=None):
    """tie: exact specialised text; also the C15/C16 text-level oracles on the real output"""
    common.import_xobjects()
    r = random.Random(seed * 6007 + 3)
    n = {"quick": 150, "thorough": 2500}[tier]
    lines, expect, ctxs = [], [], []
    distinct = set()
    with common.scratch_cwd() as tmp:
        for i in range(n):
            files = {}
            if i == 0 and api_types is None:
                src = methods_union_source()
                kind = "api"
                tags["spec.api.union-with-methods"] += 1
            elif i % 4 == 0:
                t = (api_types or capi.gen_types(r, 1))[0] if api_types is None else api_types[i // 4 % len(api_types)]
                src = capi.impl_source(T.build(t, {}))
                kind = "api"
            else:
                src = gen_src(r, files)
                kind = "annot"
            if not src:
                continue
            for fn, body in files.items():
                open(os.path.join(tmp, fn), "w").write("\n".join(body) + "\n")
            fspec = " ".join(f"{hx(fn)}:" + ",".join(hx(l) if l else "-" for l in body) for fn, body in files.items())
            outs = {}
            for tgt in TARGETS:
                e = impl_spec(src, tgt, tmp)
                outs[tgt] = e
                lines.append(f"spec {tgt} {hx(src)} {fspec}".rstrip())
                expect.append(e)
                ctxs.append({"op": "spec", "target": tgt, "src": src, "files": files, "kind": kind})
                tags["spec." + kind + "." + e.split()[0] + ("" if e.startswith("ok") else "." + e.split()[1])] += 1
            distinct.add(src)
            if kind == "api":
                lines.append(f"seg {hx(src)}")
                expect.append(("seg", src.count("/*gpuglmem*/"), sum(src.count(p) for p in PLACEHOLDERS)))
                ctxs.append({"op": "seg", "target": "-", "src": src, "files": {}, "kind": "api"})
            text_oracles(src, files, outs, kind, fails, tags)
            for fn in files:
                os.unlink(os.path.join(tmp, fn))
    got = common.run_driver("spec", lines, timeout=1800)
    if len(got) != len(lines):
        raise common.Infra(f"spec driver: {len(lines)} in {len(got)} out")
    for l, e, g, c in zip(lines, expect, got, ctxs):
        if isinstance(e, tuple):
            want = f"seg wf=true render=true plain=true nph={e[2]} nmem={e[1]}"
            tags["seg.api"] += 1
            if g != want:
                mism.append(common.Failure("tie", "spec-tie:seg", f"generated API source is not of the segmented form the C15 theorems assume: model says `{g}`, expected `{want}`; source {c['src'][:200]!r}", c))
            continue
        if e != g:
            def dec(x):
                return bytes.fromhex(x[3:]).decode("latin-1") if x.startswith("ok ") and x != "ok -" else x
            mism.append(common.Failure("tie", "spec-tie:" + c["target"],
                                       f"{c['target']} source {c['src'][:200]!r}: implementation {dec(e)[:200]!r} model {dec(g)[:200]!r}", c))
    samples.extend(repr(c["src"])[:160] for c in ctxs[4:12:4])
    return len(lines), len(distinct)


def text_oracles(src, files, outs, kind, fails, tags):
    """C16 pass-through / only_for_context / include semantics and C15 qualifier-only difference, read off the REAL output"""
    dec = {t: (bytes.fromhex(o[3:]).decode("latin-1") if o.startswith("ok ") and o != "ok -" else None) for t, o in outs.items()}
    in_lines = src.splitlines()
    plain = all(not any(a in l for a in ANNOT) for l in in_lines)
    noph = not any(p in src for p in PLACEHOLDERS)
    ctx = {"src": src, "files": files}
    for t in TARGETS:
        o = dec[t]
        if o is None:
            continue
        if plain and noph:
            tags["oracle.passthrough"] += 1
            if o != "\n".join(in_lines):
                fails.append(common.Failure("oracle", "C16:passthrough", f"unannotated source {src[:120]!r} changed for {t}: {o[:120]!r}", ctx))
        if any(p in o for p in PLACEHOLDERS):
            # the placeholders are rendered in the WHOLE text handed to the compiler, included files too
            fails.append(common.Failure("oracle", "C15:placeholder-left", f"placeholder left in the {t} form of {src[:120]!r} (files {list(files)})", ctx))
        if plain and kind == "api":
            # only the placeholders may differ: qualifier-erased tokens are those of the cpu form
            tags["oracle.api-same-tokens"] += 1
            if strip_quals(o) != strip_quals(dec["cpu_serial"] or ""):
                fails.append(common.Failure("oracle", "C15:tokens-differ", f"accessor source for {t} differs from cpu_serial in more than qualifiers", ctx))
            if any(p in o for p in PLACEHOLDERS):
                fails.append(common.Failure("oracle", "C15:placeholder-left", f"placeholder left in the {t} form", ctx))
            if t == "opencl":
                for m in re.finditer(r"(\w+)\s*\*(?!\()", o):
                    pass
                # every pointer type in a cast or declaration carries __global
                for m in re.finditer(r"(__global\s+)?(const\s+)?\b(char|int64_t|double|float|u?int(?:8|16|32|64)_t|void)\s*\*", o):
                    if not m.group(1):
                        fails.append(common.Failure("oracle", "C15:pointer-without-global", f"opencl form has `{m.group(0)}` without __global near {o[max(0, m.start() - 40): m.end() + 10]!r}", ctx))
                        break
    # only_for_context lines: verbatim where named, commented elsewhere (lines without block markers)
    if all(d is not None for d in dec.values()) and not any(p in src for p in PLACEHOLDERS) \
            and not any(a in src for a in ("//vectorize_over", "//end_vectorize", "//include_file")):
        for t in TARGETS:
            out_lines = dec[t].split("\n")
            if len(out_lines) != len(in_lines):
                fails.append(common.Failure("oracle", "C16:only-for-lines", f"line count changed for {t}: {src[:100]!r}", ctx))
                continue
            for a, b in zip(in_lines, out_lines):
                if "//only_for_context" in a:
                    named = a.split("//only_for_context")[-1].split()
                    tags["oracle.only_for"] += 1
                    want = a if t in named else "//" + a
                    if b != want:
                        fails.append(common.Failure("oracle", "C16:only-for-context", f"line {a!r} for {t}: got {b!r}, named contexts {named}", ctx))
                elif a != b:
                    fails.append(common.Failure("oracle", "C16:passthrough", f"unannotated line {a!r} became {b!r} for {t}", ctx))
    # include files: spliced iff named
    for l in in_lines:
        if "//include_file" in l and " for_context " in l and l.count("//include_file") == 1:
            fname = l.split("//include_file")[-1].split("for_context")[0].strip()
            named = l.split("for_context")[-1].split()
            if fname in files:
                for t in TARGETS:
                    if dec[t] is None:
                        continue
                    tags["oracle.include"] += 1
                    marker = "//from file: " + fname
                    if (marker in dec[t]) != (t in named):
                        fails.append(common.Failure("oracle", "C16:include", f"{l!r}: file {'not ' if t in named else ''}spliced for {t}", ctx))


# --------------------------------------------------------------------------------------------- launches

KSRC = """
%(incl)s
/*gpukern*/ void %(name)s(const int %(lim)s, /*gpuglmem*/ int32_t* cnt, /*gpuglmem*/ double* y){
  %(pre)s
%(first)s
  %(open)s//vectorize_over %(v)s %(bound)s
    cnt[%(v)s] += 1;
%(body)s
  //end_vectorize
}
"""

HOST = r"""
#include <stdint.h>
#include <stdio.h>
#include <stdlib.h>
%(shim)s
%(source)s
int main(int argc, char** argv){
  int n = atoi(argv[1]); int total = atoi(argv[2]);
  int32_t* cnt = calloc(total + 1, sizeof(int32_t)); double* y = calloc(total + 1, sizeof(double));
  %(launch)s
  for (int i = 0; i < total; i++) printf("%%d %%.1f\n", cnt[i], y[i]);
  return 0;
}
"""


def gen_kernel(r, k):
    v = r.choice(["tid", "ii", "part_id"])
    lim = r.choice(["n", "npart"])
    bound = r.choice([lim, lim, lim + "/2", lim + "-1", lim + "-skip"])
    body, weights = [], {t: 0.0 for t in TARGETS}
    w = 1.0
    for _ in range(r.randrange(0, 4)):
        named = r.sample(TARGETS, r.randrange(1, 4))
        body.append(f"    y[{v}] += {w}; //only_for_context " + " ".join(named))
        for t in named:
            weights[t] += w
        w *= 2
    if r.random() < 0.5:
        body.append(f"    y[{v}] += {w};")
        for t in TARGETS:
            weights[t] += w
        w *= 2
    incl, files = "", {}
    if r.random() < 0.5:
        named = r.sample(TARGETS, r.randrange(1, 4))
        files[f"helper{k}.h"] = [f"/*gpufun*/ double helper{k}(double a){{ return a + {w}; }}   ", f"#define HAVE_HELPER{k} 1"]
        incl = f"//include_file helper{k}.h for_context " + " ".join(named)
        body.append(f"#ifdef HAVE_HELPER{k}")
        body.append(f"    y[{v}] = helper{k}(y[{v}]);")
        body.append("#endif")
        for t in named:
            weights[t] += w
        w *= 2
        # an annotated line INSIDE the included file: active only where named (and only where the file is spliced)
        named2 = r.sample(TARGETS, r.randrange(1, 4))
        files[f"helper{k}.h"].append(f"#define HK{k}_EXTRA 1 //only_for_context " + " ".join(named2))
        body.append(f"#ifdef HK{k}_EXTRA")
        body.append(f"    y[{v}] += {w};")
        body.append("#endif")
        for t in named2:
            if t in named:
                weights[t] += w
    name = f"kern{k}"
    # the text in front of the annotation is replaced by the generated loop / work-item index on every target - also when it is a
    # hand-written loop header naming ANOTHER range
    opening = r.choice([f"int {v} = 0;", f"int {v} = 0;", f"for (int {v}=1; {v}<{lim}+3; {v}++){{ ", f"for (int {v}=0; {v}<total_cap; {v}++) {{"])
    # an EARLIER vectorised block over a smaller range: a work-item that has nothing to do there still does the later block
    first = ""
    if r.random() < 0.5:
        first = (f"  const int early_{name} = {lim}/{r.choice([2, 3])};\n  //vectorize_over jj_{name} early_{name}\n"
                 f"    y[jj_{name}] += 0.0;\n  //end_vectorize")
    src = KSRC % {"incl": incl, "name": name, "lim": lim, "bound": bound, "v": v, "open": opening, "first": first,
                  "pre": ("const int skip = 2;" if "skip" in bound else "") + (" const int total_cap = 3;" if "total_cap" in opening else ""), "body": "\n".join(body)}
    count = {lim: lambda n: n, lim + "/2": lambda n: n // 2, lim + "-1": lambda n: max(0, n - 1), lim + "-skip": lambda n: max(0, n - 2)}[bound]
    return name, lim, src, files, weights, count, bound != lim


_GEOM = {}


def real_geometry(n, block):
    """drive the REAL KernelCupy / KernelPyopencl __call__ with recording fakes; ONE kernel object per block size is called again
    and again with changing n (the launch geometry is a function of the current call's n, not of an earlier call's)"""
    xo = common.import_xobjects()
    from xobjects.context_cupy import KernelCupy
    from xobjects.context_pyopencl import KernelPyopencl

    if block not in _GEOM:
        rec = {}
        k = xo.Kernel(args=[xo.Arg(xo.Int32, name="n")], n_threads="n")

        def f1(grid, blk, args, shared_mem=0, rec=rec):
            rec["grid"], rec["block"] = int(grid[0]), int(blk[0])

        class Ev:
            def wait(self):
                pass

        def f2(queue, gsize, lsize, *args, rec=rec):
            rec["global"] = int(gsize[0])
            return Ev()

        class Cq:
            queue = None

        # the kernel's context: a ContextCupy as its constructor leaves it (default block size 256), without a device
        from xobjects.context_cupy import ContextCupy
        from xobjects.context import XContext
        cctx = object.__new__(ContextCupy)
        XContext.__init__(cctx)
        cctx.default_block_size = 256
        cctx.default_shared_mem_size_bytes = 0
        _GEOM[block] = (rec, KernelCupy(function=f1, description=k, block_size=block, context=cctx, shared_mem_size_bytes=0),
                        KernelPyopencl(function=f2, description=k, context=Cq(), wait_on_call=True))
    rec, kc, ko = _GEOM[block]
    rec.clear()
    kc(n=n)
    ko(n=n)
    return dict(rec)


def run_launch(tier, seed, fails, mism, tags, samples):
    xo = common.import_xobjects()
    from xobjects.specialize_source import specialize_source

    r = random.Random(seed * 31337 + 5)
    nk = {"quick": 3, "thorough": 40}[tier]
    lines, expect, ctxs = [], [], []
    evals = 0
    # geometry tie
    ns = [0, 1, 2, 255, 256, 257, 511, 512, 513, 1000, 65535, 65536, 2**31 - 1] + [r.randrange(0, 10**6) for _ in range(20 if tier == "quick" else 400)]
    for n in ns:
        for block in r.sample([1, 2, 32, 256, 512, 1024], 2):
            g = real_geometry(n, block)
            lines.append(f"geom {n} {block}")
            expect.append(f"grid {g['grid']} block {g['block']} global {g['global']}")
            ctxs.append({"op": "geom", "n": n, "block": block})
            tags["geom"] += 1
            # oracle: the launch covers every index exactly once
            if g["global"] != n or g["grid"] * g["block"] < n or (g["grid"] - 1) * g["block"] >= max(n, 1) and n > 0:
                fails.append(common.Failure("oracle", "C16:geometry", f"n={n} block={block}: real geometry {g} does not cover 0..n-1 exactly", ctxs[-1]))
            for tg in TARGETS[1:]:
                lines.append(f"exec {tg} {min(n, 5000)} {block}")
                m = min(n, 5000)
                expect.append(f"cnt {m} sum {m * (m - 1) // 2} range true")
                ctxs.append({"op": "exec", "n": m, "block": block, "target": tg})
    seen_marks = []
    with common.scratch_cwd() as tmp:
        for k in range(nk):
            name, lim, src, files, weights, count, expr_bound = gen_kernel(r, k)
            for fn, body in files.items():
                open(os.path.join(tmp, fn), "w").write("\n".join(body) + "\n")
            ctx = {"op": "launch", "src": src, "files": files}
            sizes = [0, 1, 2, 7] + [r.randrange(3, 70) for _ in range(2)]
            block = r.choice([1, 4, 16])
            slack = 2 * block + 3
            # ---- real CPU contexts
            # every OpenMP context is an OpenMP context: also one thread, three threads and 'auto'
            omp_n = r.choice([2, 3, "auto"])
            for cname, nthr in (("cpu_serial", 0), ("cpu_openmp", 1), ("cpu_openmp", omp_n)):
                try:
                    c = xo.ContextCpu(omp_num_threads=nthr)
                    tags[f"ctx.{cname}.{nthr}"] += 1
                    # every build brings a header of its own; the text that is compiled is saved and inspected: nothing of an EARLIER
                    # build (another kernel, another context object) may be in it - "all unannotated source text passes through
                    # unchanged", and nothing else comes in
                    mark = f"XO_VERIF_HDR_{k}_{cname}_{nthr}"
                    saved = os.path.join(tmp, f"built_{k}_{cname}_{nthr}.c")
                    c.add_kernels(sources=[src], kernels={name: xo.Kernel(args=[xo.Arg(xo.Int32, name=lim), xo.Arg(xo.Int32, pointer=True, name="cnt"), xo.Arg(xo.Float64, pointer=True, name="y")], n_threads=lim)},
                                  extra_headers=["#include <stdint.h>", f"#define {mark} 1"], save_source_as=saved)
                    built = open(saved).read() if os.path.exists(saved) else ""
                    seen_marks.append(mark)
                    foreign = [m_ for m_ in seen_marks if m_ != mark and m_ in built]
                    if mark not in built:
                        fails.append(common.Failure("oracle", "C16:extra-header-missing", f"{cname}: the header given to this build is not in the compiled text", ctx))
                    if foreign:
                        fails.append(common.Failure("oracle", "C16:text-of-an-earlier-build", f"{cname} (omp_num_threads={nthr}): the compiled text of kernel {name} contains {foreign[:3]}, header text given to EARLIER builds only", ctx))
                    tags["built-text-inspected"] += 1
                except Exception as ex:
                    fails.append(common.Failure("oracle", "C16:cpu-build-fails", f"{cname}: {type(ex).__name__} {str(ex)[:300]} for {src[:300]!r}", ctx))
                    continue
                for n in sizes:
                    cnt = np.zeros(n + slack, dtype=np.int32)
                    y = np.zeros(n + slack, dtype=np.float64)
                    getattr(c.kernels, name)(**{lim: n, "cnt": cnt, "y": y})
                    evals += 1
                    tags["launch." + cname] += 1
                    check_counts(cname, n, cnt, y, weights[cname], fails, ctx, slack, count(n))
            # ---- host-simulated GPU forms, geometry from the real kernel classes
            for tg in ("opencl", "cuda", "cpu_serial"):
                if tg == "opencl" and expr_bound:
                    continue  # the OpenCL form has no guard: it is launched with global size == bound only
                old = os.getcwd()
                spec = specialize_source(src, tg, search_in_folders=[tmp])
                if tg == "opencl":
                    shim = "static int __gid; static int get_global_id(int d){ (void)d; return __gid; }\n#define __kernel\n#define __global\n"
                    launch = "int global = atoi(argv[3]); for (int g = 0; g < global; g++){ __gid = g; %s(n, cnt, y); }" % name
                elif tg == "cuda":
                    shim = "static struct { int x; } blockDim, blockIdx, threadIdx;\n#define __global__\n#define __device__ static\n"
                    launch = ("int grid = atoi(argv[3]); int block = atoi(argv[4]); blockDim.x = block;\n"
                              "  for (int b = 0; b < grid; b++) for (int t = 0; t < block; t++){ blockIdx.x = b; threadIdx.x = t; %s(n, cnt, y); }" % name)
                else:
                    shim = ""
                    launch = "%s(n, cnt, y);" % name
                cfile = os.path.join(tmp, f"host_{tg}_{k}.c")
                open(cfile, "w").write(HOST % {"shim": shim, "source": spec, "launch": launch})
                exe = cfile[:-2]
                p = subprocess.run(["gcc", "-std=gnu99", "-O1", "-w", cfile, "-o", exe], capture_output=True, text=True)
                if p.returncode != 0:
                    key = "C15:host-compile" if tg != "cpu_serial" else "C16:host-compile"
                    fails.append(common.Failure("oracle", key, f"{tg} expansion rejected by the host compiler: {p.stderr[-300:]}", ctx))
                    continue
                for n in sizes:
                    g = real_geometry(n, block)
                    total = n + slack
                    args = [exe, str(n), str(total)] + ([str(g["global"])] if tg == "opencl" else [str(g["grid"]), str(g["block"])] if tg == "cuda" else [])
                    q = subprocess.run(args, capture_output=True, text=True, timeout=60, preexec_fn=common._unlimit_memory)
                    rows = [l.split() for l in q.stdout.splitlines()]
                    cnt = np.array([int(a) for a, _ in rows], dtype=np.int64)
                    y = np.array([float(b) for _, b in rows])
                    evals += 1
                    tags["launch.host-" + tg] += 1
                    check_counts("host-" + tg, n, cnt, y, weights[tg], fails, ctx, slack, count(n))
            if len(samples) < 6:
                samples.append(f"kernel {name}: {src.strip()[:120]!r} sizes {sizes} block {block}")
    got = common.run_driver("spec", lines)
    for l, e, g, c in zip(lines, expect, got, ctxs):
        if e != g:
            mism.append(common.Failure("tie", "spec-tie:" + c["op"], f"`{l}`: implementation/expected `{e}` model `{g}`", c))
    return len(lines) + evals, evals


def check_counts(where, n, cnt, y, weight, fails, ctx, slack, m=None):
    n_call, n = n, (n if m is None else m)
    want = np.concatenate([np.ones(n, dtype=np.int64), np.zeros(len(cnt) - n, dtype=np.int64)])
    if not np.array_equal(np.asarray(cnt, dtype=np.int64), want):
        bad = [int(i) for i in np.nonzero(np.asarray(cnt, dtype=np.int64) != want)[0][:8]]
        fails.append(common.Failure("oracle", "C16:not-once-per-index", f"{where} n={n}: body execution counts differ from once per index 0..n-1 at indices {bad} (counts {[int(cnt[i]) for i in bad]})", dict(ctx, n=n, where=where)))
    wy = np.concatenate([np.full(n, weight), np.zeros(len(y) - n)])
    if not np.array_equal(np.asarray(y), wy):
        fails.append(common.Failure("oracle", "C16:context-lines", f"{where} n={n}: y is {list(y[:4])}.., expected {weight} per index (lines active only in their named contexts)", dict(ctx, n=n, where=where)))


def run_contexts(tier, seed, fails, tags):
    """C15 on the text the CONTEXTS assemble: `ContextPyopencl.build_kernels` / `ContextCupy.build_kernels` run unchanged against
    stand-ins of pyopencl / cupy that record the program text (harness/gpuprobe.py, a process of its own); behind the headers, the
    text given to each device compiler must be the cpu context's text up to target qualifiers"""
    import subprocess
    import sys
    n = {"quick": 12, "thorough": 150}[tier]
    probe = os.path.join(os.path.dirname(os.path.abspath(__file__)), "gpuprobe.py")
    p = subprocess.run([sys.executable, probe, str(seed), str(n)], capture_output=True, text=True, timeout=1800)
    recs = []
    for l in p.stdout.splitlines():
        try:
            recs.append(json.loads(l))
        except ValueError:
            pass
    if p.returncode != 0 or not recs or "error" in recs[0]:
        raise common.Infra(f"gpuprobe: rc {p.returncode}: {(p.stderr or p.stdout)[-300:]}")
    mark = "/*XOVERIF-END-OF-HEADERS*/"
    for rec in recs:
        ctx = {"component": "gpuprobe", "type": rec["type"], "seed": seed}
        tags["contexts.types"] += 1
        body = {}
        for tgt in ("cpu", "opencl", "cuda"):
            txt = rec.get(tgt)
            if txt is None or mark not in txt:
                fails.append(common.Failure("oracle", "C15:context-pipeline-raises", f"{tgt} context, {rec['type'][:160]}: "
                                            f"{rec.get(tgt + '_error', 'no program text / marker lost')}", ctx))
                body = None
                break
            toks = strip_quals(txt.split(mark, 1)[1])
            if tgt == "cuda" and toks and toks[-1] == "}":
                toks = toks[:-1]                    # the closing brace of the extern "C" wrapper
            body[tgt] = toks
        if not body:
            continue
        for tgt in ("opencl", "cuda"):
            if body[tgt] != body["cpu"]:
                k = next((i for i, (a, b) in enumerate(zip(body[tgt], body["cpu"])) if a != b), min(len(body[tgt]), len(body["cpu"])))
                fails.append(common.Failure("oracle", "C15:context-tokens-differ",
                                            f"{rec['type'][:160]}: the program text Context{'Pyopencl' if tgt == 'opencl' else 'Cupy'}.build_kernels "
                                            f"hands to its compiler differs from the cpu context's in more than qualifiers: "
                                            f"`{' '.join(body[tgt][max(0, k - 6):k + 6])}` vs cpu `{' '.join(body['cpu'][max(0, k - 6):k + 6])}`", ctx))
            if any(ph in rec[tgt] for ph in PLACEHOLDERS):
                fails.append(common.Failure("oracle", "C15:placeholder-left", f"placeholder left in the {tgt} context's program text ({rec['type'][:120]})", ctx))
        # the HEADERS the GPU contexts put in front (their `typedef` tables for the fixed-width integer names): in the target's data
        # model (OpenCL C: char 8, short 16, int 32, long 64 bits; CUDA / LP64: long long 64) every `intN_t` / `uintN_t` is an integer
        # type of exactly N bits and that signedness - otherwise the unchanged accessor text addresses elements of another width than
        # the cpu form ("differing only in target qualifiers")
        widths = {"char": 8, "short": 16, "int": 32, "long": 64, "long long": 64}
        for tgt in ("opencl", "cuda"):
            head = rec[tgt].split(mark, 1)[0]
            seen_t = {}
            for m in re.finditer(r"typedef\s+((?:(?:un)?signed\s+)?(?:long\s+long|long|int|short|char))\s+(u?)int(8|16|32|64)_t\s*;", head):
                base, uns, bits = m.group(1).split(), m.group(2) == "u", int(m.group(3))
                is_uns = base[0] == "unsigned"
                core = " ".join(w for w in base if w not in ("signed", "unsigned"))
                seen_t[(uns, bits)] = True
                if widths.get(core) != bits or is_uns != uns:
                    fails.append(common.Failure("oracle", "C15:header-integer-width", f"{tgt} header: `{m.group(0)}` makes {'u' if uns else ''}int{bits}_t a "
                                                f"{'unsigned ' if is_uns else ''}{core} ({widths.get(core)} bits in the {tgt} data model)", ctx))
            if head.count("typedef") and len(seen_t) != 8:
                fails.append(common.Failure("oracle", "C15:header-integer-width", f"{tgt} header defines {len(seen_t)} of the 8 fixed-width integer names "
                                            f"(unparsed or missing typedef lines)", ctx))
            tags[f"contexts.header-typedefs.{tgt}"] += len(seen_t)
        # every pointer type spelled out in the text the OpenCL context hands over carries __global - also when the cpu context
        # generated code for the same classes earlier in the process
        o = rec["opencl"].split(mark, 1)[1]
        for m in re.finditer(r"(__global\s+)?(const\s+)?\b(char|int64_t|double|float|u?int(?:8|16|32|64)_t|void)\s*\*", o):
            if not m.group(1):
                fails.append(common.Failure("oracle", "C15:pointer-without-global", f"{rec['type'][:120]}: the OpenCL context's program text has "
                                            f"`{m.group(0)}` without __global near {o[max(0, m.start() - 40): m.end() + 10]!r}", ctx))
                break
    return len(recs)


def run_all(tier, seed, parts=("text", "launch")):
    fails, mism, tags, samples = [], [], collections.Counter(), []
    lines = distinct = evals = 0
    if "text" in parts:
        a, b = run_text(tier, seed, fails, mism, tags, samples)
        lines += a
        distinct += b
        k = run_contexts(tier, seed, fails, tags)
        lines += k
        distinct += k
    if "launch" in parts:
        a, b = run_launch(tier, seed, fails, mism, tags, samples)
        lines += a
        distinct += b
        evals += b
    return {"failures": fails, "mismatches": mism, "lines": lines, "distinct": distinct, "tags": dict(tags),
            "samples": samples, "evals": evals}
