"""Kernel-call component (C17): echo kernels compiled once per run through the REAL ctx.add_kernels and called through
ctx.kernels.<name>(**kwargs): every scalar type by value (incl. extremes), compound xobjects at random offsets (pointer and
first bytes, before and after buffer growth), NumPy arrays (contiguous, offset slices, strided, N-D) and xobject arrays as
pointers to their first element, return values, and the refusals (positional, missing, extra, wrong element type).
Serial and OpenMP contexts.  The decision logic / address arithmetic is compared with the Lean model (`kcall` component)."""
import collections
import random

import numpy as np

from . import common

SCAL = [("Float64", "double", "f8"), ("Float32", "float", "f4"), ("Int64", "int64_t", "i8"), ("UInt64", "uint64_t", "u8"),
        ("Int32", "int32_t", "i4"), ("UInt32", "uint32_t", "u4"), ("Int16", "int16_t", "i2"), ("UInt16", "uint16_t", "u2"),
        ("Int8", "int8_t", "i1"), ("UInt8", "uint8_t", "u1")]

SRC_HEAD = """
#include <stdint.h>
"""


def build_kernels(xo):
    class KS(xo.Struct):
        a = xo.Int64
        b = xo.Float64
        c = xo.Int8[:]

    src = [SRC_HEAD]
    ks = {}
    for name, cty, _ in SCAL:
        xt = getattr(xo, name)
        src.append(f"/*gpufun*/ {cty} echo_{name}({cty} v){{ return v; }}")
        ks[f"echo_{name}"] = xo.Kernel(c_name=f"echo_{name}", args=[xo.Arg(xt, name="v")], ret=xo.Arg(xt))
        src.append(f"/*gpufun*/ int64_t addr_{name}({cty}* p){{ return (int64_t)(intptr_t)p; }}")
        ks[f"addr_{name}"] = xo.Kernel(c_name=f"addr_{name}", args=[xo.Arg(xt, pointer=True, name="p")], ret=xo.Arg(xo.Int64))
        src.append(f"/*gpufun*/ {cty} first_{name}({cty}* p){{ return p[0]; }}")
        ks[f"first_{name}"] = xo.Kernel(c_name=f"first_{name}", args=[xo.Arg(xt, pointer=True, name="p")], ret=xo.Arg(xt))
    src.append("/*gpufun*/ int64_t addr_obj(KS obj){ return (int64_t)(intptr_t)obj; }")
    ks["addr_obj"] = xo.Kernel(c_name="addr_obj", args=[xo.Arg(KS, name="obj")], ret=xo.Arg(xo.Int64))
    src.append("/*gpufun*/ int64_t word_obj(KS obj, int64_t k){ return ((int64_t*)obj)[k]; }")
    ks["word_obj"] = xo.Kernel(c_name="word_obj", args=[xo.Arg(KS, name="obj"), xo.Arg(xo.Int64, name="k")], ret=xo.Arg(xo.Int64))
    src.append("/*gpufun*/ double mix(KS obj, double x, int32_t n, double* arr){ return KS_get_b(obj) + x + n + arr[1]; }")
    ks["mix"] = xo.Kernel(c_name="mix", args=[xo.Arg(KS, name="obj"), xo.Arg(xo.Float64, name="x"), xo.Arg(xo.Int32, name="n"),
                                             xo.Arg(xo.Float64, pointer=True, name="arr")], ret=xo.Arg(xo.Float64))
    src.append("/*gpufun*/ void noret(KS obj, int64_t v){ KS_set_a(obj, v); }")
    ks["noret"] = xo.Kernel(c_name="noret", args=[xo.Arg(KS, name="obj"), xo.Arg(xo.Int64, name="v")])
    return KS, "\n".join(src), ks


def base_addr(ffi, arr):
    return int(ffi.cast("size_t", ffi.from_buffer(arr)))


def run_all(tier, seed):
    xo = common.import_xobjects()
    import cffi

    ffi = cffi.FFI()
    r = random.Random(seed * 7727 + 3)
    fails, tags = [], collections.Counter()
    lines, expect, ctxs = [], [], []
    evals = 0

    def fail(key, what, ctx):
        fails.append(common.Failure("oracle", "C17:" + key, what, ctx))

    n_obj = {"quick": 12, "thorough": 600}[tier]
    with common.scratch_cwd():
        for cname, mk in (("serial", lambda: xo.ContextCpu()), ("openmp", lambda: xo.ContextCpu(omp_num_threads=2))):
            ctx = mk()
            KS, src, ks = build_kernels(xo)
            try:
                ctx.add_kernels(sources=[src], kernels=ks)
            except Exception as ex:
                fail("echo-build-fails", f"{cname}: {type(ex).__name__} {str(ex)[:300]}", {"ctx": cname})
                continue
            K = ctx.kernels
            c0 = {"ctx": cname}
            # ---------------- scalars by value, return value unchanged
            for name, cty, code in SCAL:
                dt = np.dtype(code)
                if dt.kind == "f":
                    vals = [0.0, -0.0, 1.5, -2.25, float(np.finfo(dt).max), float(np.finfo(dt).tiny), float("inf")]
                    lo = hi = None
                else:
                    info = np.iinfo(dt)
                    lo, hi = int(info.min), int(info.max)
                    vals = [lo, hi, 0, 1, -1 if lo < 0 else 2] + [r.randint(lo, hi) for _ in range(4)]
                for v in vals:
                    try:
                        got = getattr(K, f"echo_{name}")(v=v)
                        evals += 1
                        tags["scalar." + name] += 1
                        if np.array([got], dtype=dt).tobytes() != np.array([v], dtype=dt).tobytes():
                            fail("scalar-value", f"{cname}: echo_{name}({v!r}) returned {got!r}", dict(c0, kernel=f"echo_{name}", v=v))
                    except Exception as ex:
                        fail("scalar-raises", f"{cname}: echo_{name}({v!r}): {type(ex).__name__} {str(ex)[:100]}", dict(c0, v=v))
                    if lo is not None:
                        lines.append(f"scalar {lo} {hi} {int(v)}")
                        expect.append(f"val {int(v)}")
                        ctxs.append(dict(c0, kernel=f"echo_{name}", v=v))
                if dt.kind == "f":
                    # subnormal values of the declared C type are representable values: they go in and come back bit for bit.  Values and
                    # expectations are built from BIT PATTERNS (no floating-point operation of this process takes part in the comparison:
                    # a build that switches the process to flush-to-zero would otherwise hide its own effect)
                    import struct
                    subs = [(-149, 1), (-140, 1 << 9), (-127, 1 << 22)] if code == "f4" else [(-1074, 1), (-1060, 1 << 14), (-1023, 1 << 51)]
                    for e2, own_bits in subs:
                        dbits = ((e2 + 1023) << 52) if code == "f4" else own_bits        # the value as a C double / its own pattern
                        v = struct.unpack("<d", struct.pack("<Q", dbits))[0]
                        try:
                            got = getattr(K, f"echo_{name}")(v=v)
                            evals += 1
                            tags["scalar.subnormal." + name] += 1
                            gbits = struct.unpack("<Q", struct.pack("<d", float(got)))[0]
                            if gbits != dbits:
                                fail("scalar-value", f"{cname}: echo_{name}(2**{e2}, a subnormal {cty}) returned the bit pattern {gbits:#018x}, expected {dbits:#018x}", dict(c0, kernel=f"echo_{name}", v=f"2**{e2}"))
                        except Exception as ex:
                            fail("scalar-raises", f"{cname}: echo_{name}(2**{e2}): {type(ex).__name__} {str(ex)[:100]}", dict(c0, v=f"2**{e2}"))
                if lo is not None:
                    for bad in (hi + 1, lo - 1):
                        try:
                            got = getattr(K, f"echo_{name}")(v=bad)
                            fail("out-of-range-accepted", f"{cname}: echo_{name}({bad}) (outside [{lo},{hi}]) returned {got!r} instead of being refused", dict(c0, v=bad))
                        except (OverflowError, ValueError, TypeError):
                            tags["scalar.refused-out-of-range"] += 1
                        lines.append(f"scalar {lo} {hi} {bad}")
                        expect.append("err overflow")
                        ctxs.append(dict(c0, kernel=f"echo_{name}", v=bad))
            # ---------------- compound objects: pointer to the first byte at the CURRENT location
            buf = ctx.new_buffer(r.choice([64, 256]))
            objs = []
            gen = 0
            stale = False
            for j in range(n_obj):
                if stale:
                    break
                if r.random() < 0.3:
                    buf.allocate(r.randrange(1, 30))
                o = KS(a=r.randint(-2**62, 2**62), b=float(j) + 0.5, c=[r.randrange(-128, 128) for _ in range(r.randrange(0, 9))], _buffer=buf)
                objs.append(o)
                if r.random() < 0.4:
                    buf.grow(r.choice([8, 64, 1000]))           # storage is relocated; offsets stay
                    gen += 1
                for o2 in r.sample(objs, min(3, len(objs))):
                    base = base_addr(ffi, buf.buffer)
                    c1 = dict(c0, offset=int(o2._offset), capacity=buf.capacity, generation=gen)
                    try:
                        a = int(K.addr_obj(obj=o2))
                        evals += 1
                        tags["xobj.ptr"] += 1
                        if a - base != int(o2._offset):
                            fail("xobj-pointer", f"{cname}: object at offset {int(o2._offset)} of a buffer grown {gen} times was delivered as address base+{a - base}", c1)
                            stale = True
                            break           # the pointer is wrong: reading or writing through it could touch freed memory
                        w0 = int(K.word_obj(obj=o2, k=1))
                        evals += 1
                        if w0 != int(o2.a):
                            fail("xobj-bytes", f"{cname}: the kernel reads {w0} in the object's second word, Python reads a={int(o2.a)}", c1)
                        newa = r.randint(-2**62, 2**62)
                        K.noret(obj=o2, v=newa)
                        if int(o2.a) != newa:
                            fail("xobj-write-lost", f"{cname}: a kernel write to the object at offset {int(o2._offset)} (buffer grown {gen} times) is not seen from Python", c1)
                        if K.noret(obj=o2, v=newa) is not None:
                            fail("void-return", f"{cname}: a kernel without return value returned something", c1)
                    except Exception as ex:
                        fail("xobj-call-raises", f"{cname}: {type(ex).__name__} {str(ex)[:160]}", c1)
                    lines.append(f"xobj {gen} {int(o2._offset)}")
                    expect.append(f"ptr {gen} {int(o2._offset)}")
                    ctxs.append(c1)
            # ---------------- a deep copy of an object whose buffer has been used for a call: it lives in ITS OWN copy of the buffer
            if objs and not stale:
                import copy as _copy
                o2 = r.choice(objs)
                c1 = dict(c0, offset=int(o2._offset), what="deepcopy")
                try:
                    oc = _copy.deepcopy(o2)
                    a = int(K.addr_obj(obj=oc))
                    evals += 1
                    tags["xobj.ptr.deepcopy"] += 1
                    base_c = base_addr(ffi, oc._buffer.buffer)
                    if oc._buffer is o2._buffer or a - base_c != int(oc._offset):
                        fail("xobj-pointer", f"{cname}: a deep copy of an object (offset {int(o2._offset)}, its buffer was used for kernel calls before) was "
                             f"delivered as address copy-base+{a - base_c}, original-base+{a - base_addr(ffi, o2._buffer.buffer)}", c1)
                    else:
                        newa = r.randint(-2**62, 2**62)
                        olda = int(o2.a)
                        K.noret(obj=oc, v=newa)
                        if int(oc.a) != newa or int(o2.a) != olda:
                            fail("xobj-write-lost", f"{cname}: a kernel write to a deep copy: the copy reads {int(oc.a)} (written {newa}), the original "
                                 f"{int(o2.a)} (was {olda})", c1)
                except Exception as ex:
                    fail("xobj-call-raises", f"{cname}: deep copy: {type(ex).__name__} {str(ex)[:160]}", c1)
            # ---------------- numeric arrays as pointers to their first element
            for name, cty, code in SCAL:
                dt = np.dtype(code)
                full = (np.arange(40) % 100).astype(dt)
                views = [("contiguous", full), ("offset-slice", full[3:17]), ("strided", full[2::3]), ("2d", full[:36].reshape(6, 6)),
                         ("2d-slice", full[:36].reshape(6, 6)[2:5, 1:4])]
                for vn, arr in views:
                    c1 = dict(c0, array=vn, dtype=code)
                    try:
                        a = int(getattr(K, f"addr_{name}")(p=arr))
                        f0 = getattr(K, f"first_{name}")(p=arr)
                        evals += 2
                        tags["nparray." + vn] += 1
                        want = arr.__array_interface__["data"][0]
                        if a != want:
                            fail("nparray-pointer", f"{cname}: {vn} {code} array: delivered address differs from the address of its first element by {a - want}", c1)
                        first = arr[(0,) * arr.ndim]
                        if np.array([f0], dtype=dt).tobytes() != np.array([first], dtype=dt).tobytes():
                            fail("nparray-first", f"{cname}: {vn} {code} array: kernel reads {f0!r} as p[0], the array's first element is {first!r}", c1)
                    except Exception as ex:
                        fail("nparray-raises", f"{cname}: {vn} {code}: {type(ex).__name__} {str(ex)[:120]}", c1)
                    lines.append(f"nparr {cty} {arr.__array_interface__['data'][0] - full.__array_interface__['data'][0]}")
                    expect.append(f"ptr 0 {arr.__array_interface__['data'][0] - full.__array_interface__['data'][0]} {cty}*")
                    ctxs.append(c1)
                # xobject array
                xt = getattr(xo, name)
                for shape_kind in ("dyn", "static"):
                    Arr = xt[:] if shape_kind == "dyn" else xt[5]
                    buf.allocate(r.randrange(1, 20))
                    xa = Arr([1, 2, 3, 4, 5], _buffer=buf)
                    if r.random() < 0.5:
                        buf.grow(64)
                        gen += 1
                    base = base_addr(ffi, buf.buffer)
                    c1 = dict(c0, xarray=Arr.__name__, offset=int(xa._offset))
                    try:
                        a = int(getattr(K, f"addr_{name}")(p=xa))
                        evals += 1
                        tags["xarray." + shape_kind] += 1
                        want = int(xa._offset) + int(Arr._data_offset)
                        if a - base != want:
                            fail("xarray-pointer", f"{cname}: {Arr.__name__} at {int(xa._offset)}: delivered base+{a - base}, its first element is at base+{want}", c1)
                            continue
                        f0 = getattr(K, f"first_{name}")(p=xa)
                        evals += 1
                        if float(f0) != 1.0:
                            fail("xarray-first", f"{cname}: {Arr.__name__}: kernel reads {f0!r} as p[0], the first item is 1", c1)
                    except Exception as ex:
                        fail("xarray-raises", f"{cname}: {Arr.__name__}: {type(ex).__name__} {str(ex)[:160]}", c1)
                    lines.append(f"xarr {cty} {gen} {int(xa._offset)} {int(Arr._data_offset)}")
                    expect.append(f"ptr {gen} {int(xa._offset) + int(Arr._data_offset)} {cty}*")
                    ctxs.append(c1)
            # ---------------- refusals and the mixed call
            if stale:
                continue
            o = objs[0]
            arr = np.array([1.0, 2.0, 3.0])
            good = dict(obj=o, x=0.25, n=3, arr=arr)
            try:
                got = K.mix(**good)
                if got != float(o.b) + 0.25 + 3 + 2.0:
                    fail("mixed-call", f"{cname}: mix returned {got}", c0)
                evals += 1
            except Exception as ex:
                fail("mixed-call-raises", f"{cname}: {type(ex).__name__} {str(ex)[:100]}", c0)
            lines.append("call 4 0 obj,x,n,arr")
            expect.append("ok 4")
            ctxs.append(c0)
            for what, fn, line, want in (
                ("positional", lambda: K.mix(o, 0.25, 3, arr), "call 4 4 -", "err value"),
                ("positional+named", lambda: K.mix(o, x=0.25, n=3, arr=arr), "call 4 1 x,n,arr", "err value"),
                ("missing", lambda: K.mix(obj=o, x=0.25, n=3), "call 4 0 obj,x,n", "err assertion"),
                ("extra", lambda: K.mix(obj=o, x=0.25, n=3, arr=arr, y=1), "call 4 0 obj,x,n,arr,y", "err assertion"),
                # a missing SCALAR must be refused too (None converts to a floating-point scalar without complaint: nan)
                ("missing-float", lambda: K.mix(obj=o, n=3, arr=arr), "call 4 0 obj,n,arr", "err assertion"),
                ("missing-int", lambda: K.mix(obj=o, x=0.25, arr=arr), "call 4 0 obj,x,arr", "err assertion"),
                ("missing-object", lambda: K.mix(x=0.25, n=3, arr=arr), "call 4 0 x,n,arr", "err assertion"),
                ("missing-all", lambda: K.mix(), "call 4 0 -", "err assertion"),
                ("renamed", lambda: K.mix(obj=o, x=0.25, n=3, array=arr), "call 4 0 obj,x,n,array", "err key"),
                # one argument missing and a misspelt one given instead: the count is right, the lookup by name must still fail
                ("renamed-scalar", lambda: K.mix(obj=o, xx=0.25, n=3, arr=arr), "call 4 0 obj,xx,n,arr", "err key"),
                ("renamed-int", lambda: K.mix(obj=o, x=0.25, m=3, arr=arr), "call 4 0 obj,x,m,arr", "err key"),
                ("renamed-object", lambda: K.mix(object=o, x=0.25, n=3, arr=arr), "call 4 0 object,x,n,arr", "err key"),
                ("wrong-element-type", lambda: K.mix(obj=o, x=0.25, n=3, arr=arr.astype("f4")), None, None),
                ("wrong-element-type-int", lambda: K.first_Float64(p=np.array([1, 2, 3], dtype="i8")), None, None),
                # xobject arrays are checked like NumPy arrays: the element type must be the declared one
                ("wrong-element-type-xobject-f4", lambda: K.first_Float64(p=xo.Float32[:]([1.0, 2.0, 3.0, 4.0])), None, None),
                ("wrong-element-type-xobject-i8", lambda: K.first_Float64(p=xo.Int64[:]([1, 2, 3])), None, None),
                ("wrong-element-type-xobject-u1", lambda: K.mix(obj=o, x=0.25, n=3, arr=xo.UInt8[24](list(range(24)))), None, None),
            ):
                before = (int(o.a), float(o.b))
                try:
                    got = fn()
                    fail("misuse-accepted:" + what, f"{cname}: a call with {what} argument(s) was executed (returned {got!r}) instead of being refused", dict(c0, misuse=what))
                except (ValueError, AssertionError, KeyError, TypeError):
                    tags["refused." + what] += 1
                except Exception as ex:
                    fail("misuse-wrong-exception:" + what, f"{cname}: {what}: {type(ex).__name__} {str(ex)[:100]}", dict(c0, misuse=what))
                if (int(o.a), float(o.b)) != before:
                    fail("misuse-side-effect:" + what, f"{cname}: refused call changed the object", dict(c0, misuse=what))
                if line:
                    lines.append(line)
                    expect.append(want)
                    ctxs.append(dict(c0, misuse=what))
    got = common.run_driver("kcall", lines)
    mism = []
    for l, e, g, c in zip(lines, expect, got, ctxs):
        if e != g:
            mism.append(common.Failure("tie", "kcall-tie:" + l.split()[0], f"`{l}`: implementation `{e}` model `{g}`", c))
    return {"failures": fails, "mismatches": mism, "lines": len(lines), "distinct": evals, "tags": dict(tags),
            "samples": lines[:3] + lines[-3:], "evals": evals}
