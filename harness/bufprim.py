"""CPU buffer primitive component (C13): every primitive of BufferNumpy and BufferByteArray on small capacities
(exhaustive (offset, length) pairs in the quick tier up to capacity 8, thorough up to 20 plus random large), compared
byte for byte with the Lean model, and the model-independent oracle (splice / frame / length / aliasing by follow-up write)."""
import collections
import itertools
import random

import numpy as np

from . import common

DTYPES = ["int8", "uint8", "int16", "uint16", "int32", "uint32", "int64", "uint64", "float32", "float64"]
INT_DT = DTYPES[:8]


def hx(b):
    b = bytes(b)
    return b.hex() or "-"


def mk_buffer(kind, cap, r, ctx=None):
    common.import_xobjects()
    from xobjects.context_cpu import BufferNumpy, BufferByteArray, ContextCpu

    cls = BufferNumpy if kind == "numpy" else BufferByteArray
    b = cls(capacity=cap, context=ctx) if ctx is not None else cls(capacity=cap)
    data = bytes(r.randrange(1, 256) for _ in range(cap))
    if cap:
        b.buffer[:] = np.frombuffer(data, dtype="int8") if kind == "numpy" else data
    return b, data


def image(b):
    return bytes(b.buffer.tobytes() if hasattr(b.buffer, "tobytes") else b.buffer)


def native_of(kind, data):
    return np.frombuffer(bytes(data), dtype="int8").copy() if kind == "numpy" else bytearray(data)


class Rec:
    def __init__(self):
        self.lines, self.expect, self.ctxs = [], [], []
        self.fails, self.tags = [], collections.Counter()

    def add(self, line, expect, ctx):
        self.lines.append(line)
        self.expect.append(expect)
        self.ctxs.append(ctx)

    def fail(self, key, what, ctx):
        self.fails.append(common.Failure("oracle", "C13:" + key, what, ctx))


def check_splice(R, name, kind, before, after, off, src, ctx):
    """oracle: after == before[:off] + src + before[off+len:]"""
    want = before[:off] + bytes(src) + before[off + len(src):]
    if after != want:
        ch = [i for i in range(min(len(before), len(after))) if before[i] != after[i]]
        R.fail(f"{name}:wrong-bytes", f"{kind}.{name} cap={len(before)} off={off} n={len(src)}: changed bytes at {ch[:10]}, length {len(after)}; "
               f"expected exactly [{off},{off + len(src)}) := {bytes(src).hex()}", ctx)


def call(R, name, kind, fn, ctx):
    try:
        return True, fn()
    except Exception as ex:  # a request inside capacity must not fail
        R.fail(f"{name}:raises:{type(ex).__name__}", f"{kind}.{name} {ctx.get('args')}: {type(ex).__name__}: {str(ex)[:160]}", ctx)
        return False, None


def run_case(R, kind, cap, off, n, r, cross):
    """all primitives for one (kind, capacity, offset, length)"""
    ctx0 = {"kind": kind, "cap": cap, "off": off, "n": n}
    # ---- update_from_native
    b, before = mk_buffer(kind, cap, r)
    scap = n + r.randrange(0, 4)
    so = r.randrange(0, scap - n + 1)
    sdata = bytes(r.randrange(1, 256) for _ in range(scap))
    ctx = dict(ctx0, prim="update_from_native", args=(off, so, n, sdata.hex()))
    ok, _ = call(R, "update_from_native", kind, lambda: b.update_from_native(off, native_of(kind, sdata), so, n), ctx)
    if ok:
        after = image(b)
        R.add(f"native {hx(before)} {off} {hx(sdata)} {so} {n}", "ok " + hx(after), ctx)
        check_splice(R, "update_from_native", kind, before, after, off, sdata[so:so + n], ctx)
        R.tags["update_from_native"] += 1
    # ---- to_native + independence
    b, before = mk_buffer(kind, cap, r)
    ctx = dict(ctx0, prim="to_native", args=(off, n))
    ok, nat = call(R, "to_native", kind, lambda: b.to_native(off, n), ctx)
    if ok:
        got = bytes(nat.tobytes() if hasattr(nat, "tobytes") else nat)
        R.add(f"tonative {hx(before)} {off} {n}", "bytes " + hx(got), ctx)
        if got != before[off:off + n]:
            R.fail("to_native:wrong-bytes", f"{kind}.to_native({off},{n}) cap={cap}: {got.hex()} != {before[off:off + n].hex()}", ctx)
        if n:
            b.buffer[off] = (before[off] + 1) % 128
            got2 = bytes(nat.tobytes() if hasattr(nat, "tobytes") else nat)
            if got2 != got:
                R.fail("to_native:aliases", f"{kind}.to_native({off},{n}): the extracted copy changed when the buffer was written", ctx)
        R.tags["to_native"] += 1
    # ---- to_bytearray + independence
    b, before = mk_buffer(kind, cap, r)
    ctx = dict(ctx0, prim="to_bytearray", args=(off, n))
    ok, ba = call(R, "to_bytearray", kind, lambda: b.to_bytearray(off, n), ctx)
    if ok:
        got = bytes(ba)
        R.add(f"tonative {hx(before)} {off} {n}", "bytes " + hx(got), ctx)
        if got != before[off:off + n]:
            R.fail("to_bytearray:wrong-bytes", f"{kind}.to_bytearray({off},{n}) cap={cap}: {got.hex()}", ctx)
        if n:
            b.buffer[off] = (before[off] + 1) % 128
            if bytes(ba) != got:
                R.fail("to_bytearray:aliases", f"{kind}.to_bytearray({off},{n}): the extracted copy changed when the buffer was written", ctx)
            ba[0] = (ba[0] + 1) % 256
            if image(b)[off] != (before[off] + 1) % 128:
                R.fail("to_bytearray:aliases", f"{kind}.to_bytearray({off},{n}): writing the copy changed the buffer", ctx)
        R.tags["to_bytearray"] += 1
    # ---- copy_to_native
    b, before = mk_buffer(kind, cap, r)
    dcap = n + r.randrange(0, 4)
    doff = r.randrange(0, dcap - n + 1)
    ddata = bytes(r.randrange(1, 256) for _ in range(dcap))
    dest = native_of(kind, ddata)
    ctx = dict(ctx0, prim="copy_to_native", args=(doff, off, n))
    ok, _ = call(R, "copy_to_native", kind, lambda: b.copy_to_native(dest, doff, off, n), ctx)
    if ok:
        dafter = bytes(dest.tobytes() if hasattr(dest, "tobytes") else dest)
        R.add(f"copyto {hx(before)} {hx(ddata)} {doff} {off} {n}", "ok " + hx(dafter), ctx)
        check_splice(R, "copy_to_native", kind, ddata, dafter, doff, before[off:off + n], ctx)
        if image(b) != before:
            R.fail("copy_to_native:source-changed", f"{kind}.copy_to_native changed the source buffer", ctx)
        R.tags["copy_to_native"] += 1
    # ---- update_from_buffer (bytes, bytearray, memoryview, ndarray.data)
    for form in ("bytes", "bytearray", "memoryview", "npdata", "npdata16", "npdata64", "memoryview32", "npdata2d", "npdata16x2d", "memoryview2d"):
        # typed views (items wider than a byte): "numpy array.data" of the docstring - len() of those counts items, not bytes
        # ... and MULTI-dimensional ones (the .data of a matrix, a memoryview cast to a shape): len() is the first dimension only
        width = {"npdata16": 2, "npdata64": 8, "memoryview32": 4, "npdata2d": 2, "npdata16x2d": 4, "memoryview2d": 2}.get(form, 1)
        if n % width or (width > 1 and n == 0):
            continue
        b, before = mk_buffer(kind, cap, r)
        src = bytes(r.randrange(1, 256) for _ in range(n))
        arg = {"bytes": lambda: src, "bytearray": lambda: bytearray(src), "memoryview": lambda: memoryview(src),
               "npdata": lambda: np.frombuffer(src, dtype="uint8").copy().data,
               "npdata16": lambda: np.frombuffer(src, dtype="int16").copy().data,
               "npdata64": lambda: np.frombuffer(src, dtype="float64").copy().data,
               "memoryview32": lambda: memoryview(src).cast("I"),
               "npdata2d": lambda: np.frombuffer(src, dtype="uint8").copy().reshape(-1, 2).data,
               "npdata16x2d": lambda: np.frombuffer(src, dtype="int16").copy().reshape(-1, 2).data,
               "memoryview2d": lambda: memoryview(src).cast("B", (len(src) // 2, 2))}[form]()
        ctx = dict(ctx0, prim="update_from_buffer", args=(off, form, src.hex()))
        ok, _ = call(R, "update_from_buffer", kind, lambda: b.update_from_buffer(off, arg), ctx)
        if ok:
            after = image(b)
            R.add(f"frombuf {hx(before)} {off} {hx(src)}", "ok " + hx(after), ctx)
            check_splice(R, "update_from_buffer", kind, before, after, off, src, ctx)
            R.tags["update_from_buffer." + form] += 1
    # ---- update_from_xbuffer: same context / other context / other kind; and self
    for how in cross:
        b, before = mk_buffer(kind, cap, r)
        skind = kind if how in ("same", "other") else ("bytearray" if kind == "numpy" else "numpy")
        sctx = b.context if how in ("same", "same-otherkind") else None
        scap = n + r.randrange(0, 4)
        so = r.randrange(0, scap - n + 1)
        sb, sdata = mk_buffer(skind, scap, r, ctx=sctx)
        ctx = dict(ctx0, prim="update_from_xbuffer", args=(how, off, so, n, sdata.hex()))
        ok, _ = call(R, "update_from_xbuffer." + how, kind, lambda: b.update_from_xbuffer(off, sb, so, n), ctx)
        if ok:
            after = image(b)
            R.add(f"xbuf {1 if sb.context == b.context else 0} {hx(before)} {off} {hx(sdata)} {so} {n}", "ok " + hx(after), ctx)
            check_splice(R, "update_from_xbuffer." + how, kind, before, after, off, sdata[so:so + n], ctx)
            if image(sb) != sdata:
                R.fail("update_from_xbuffer:source-changed", f"{kind} <- {skind} ({how}): source buffer changed", ctx)
            R.tags["update_from_xbuffer." + how] += 1
    if cap >= n:
        b, before = mk_buffer(kind, cap, r)
        so = r.randrange(0, cap - n + 1)
        ctx = dict(ctx0, prim="update_from_xbuffer(self)", args=(off, so, n))
        ok, _ = call(R, "update_from_xbuffer.self", kind, lambda: b.update_from_xbuffer(off, b, so, n), ctx)
        if ok:
            after = image(b)
            R.add(f"self {hx(before)} {off} {so} {n}", "ok " + hx(after), ctx)
            check_splice(R, "update_from_xbuffer.self", kind, before, after, off, before[so:so + n], ctx)
            R.tags["update_from_xbuffer.self" + (".overlap" if n and abs(off - so) < n and off != so else "")] += 1


def run_growth(R, kind, cap, r):
    """`grow` moves the buffer "into fresh native storage" (copy_to_native of the whole old capacity): EVERY old byte is carried over,
    wherever the allocator's free list says free space is - bytes may have been written at explicit offsets (`update_from_buffer`,
    objects placed with `_offset=`) without any allocation.  Oracle only: states of the free list x growth amounts."""
    for hist in ("fresh", "full", "hole-then-full", "hole-and-tail", "tail"):
        b, before = mk_buffer(kind, cap, r)
        ctx = {"kind": kind, "cap": cap, "prim": "grow", "history": hist}
        try:
            if hist == "full" and cap:
                b.allocate(cap)
            elif hist == "hole-then-full" and cap >= 4:
                o1 = b.allocate(cap // 4); b.allocate(cap - cap // 4); b.free(o1, cap // 4)
            elif hist == "hole-and-tail" and cap >= 4:
                o1 = b.allocate(cap // 4); b.allocate(cap // 4); b.free(o1, cap // 4)
            elif hist == "tail" and cap >= 2:
                b.allocate(cap // 2)
            if image(b) != before:
                R.fail("grow:allocation-changed-bytes", f"{kind} cap={cap} {hist}: allocate / free changed bytes of the buffer", ctx)
                continue
            add = r.choice([1, 8, cap or 3, 1000])
            b.grow(add)
            after = image(b)
            R.tags["grow." + hist] += 1
            if b.capacity != cap + add or len(after) != cap + add or after[:cap] != before:
                k = next((i for i in range(min(cap, len(after))) if after[i] != before[i]), None)
                R.fail("grow:old-bytes-lost", f"{kind}.grow({add}) cap={cap}, free list state `{hist}`: capacity {b.capacity}, storage of {len(after)} bytes, "
                       f"first old byte that differs: {k}", ctx)
        except Exception as ex:
            R.fail(f"grow:raises:{type(ex).__name__}", f"{kind} cap={cap} {hist}: {str(ex)[:160]}", ctx)


def run_views(R, kind, cap, r, n_cases):
    """to_nplike views alias; update_from_nplike for dtype pairs and source layouts"""
    for _ in range(n_cases):
        dt = np.dtype(r.choice(DTYPES))
        w = dt.itemsize
        if cap < w:
            continue
        shape = r.choice([(1,), (2,), (3,), (2, 2), (1, 3), (2, 1, 2)])
        count = int(np.prod(shape))
        if w * count > cap:
            shape, count = (1,), 1
        off = r.randrange(0, cap - w * count + 1)
        b, before = mk_buffer(kind, cap, r)
        ctx = {"kind": kind, "cap": cap, "prim": "to_nplike", "args": (off, str(dt), shape)}
        ok, v = call(R, "to_nplike", kind, lambda: b.to_nplike(off, dt, shape), ctx)
        if not ok:
            continue
        i = r.randrange(count)
        flat = v.reshape(-1)
        got = flat[i:i + 1].tobytes()
        R.add(f"vget {hx(before)} {off} {w} {count} {i}", "bytes " + hx(got), ctx)
        if got != before[off + i * w: off + (i + 1) * w]:
            R.fail("to_nplike:wrong-element", f"{kind}.to_nplike({off},{dt},{shape}) element {i}: {got.hex()}", ctx)
        # write through the view -> buffer bytes
        newb = bytes(r.randrange(1, 120) for _ in range(w))
        try:
            flat[i] = np.frombuffer(newb, dtype=dt)[0]
        except ValueError:
            R.fail("to_nplike:not-writable", f"{kind}.to_nplike view is read-only", ctx)
            continue
        after = image(b)
        want = before[:off + i * w] + newb + before[off + (i + 1) * w:]
        stored = after[off + i * w: off + (i + 1) * w]
        if dt.kind == "f" and stored != newb:
            newb = stored  # NaN payloads may be canonicalised by the float store; not part of the aliasing claim
            want = before[:off + i * w] + newb + before[off + (i + 1) * w:]
        R.add(f"vset {hx(before)} {off} {w} {count} {i} {hx(newb)}", "ok " + hx(after), ctx)
        if after != want:
            R.fail("to_nplike:view-does-not-alias", f"{kind}.to_nplike({off},{dt},{shape}): writing element {i} through the view did not change exactly the buffer bytes it covers", ctx)
        # write the buffer -> seen by the view
        if count:
            b.buffer[off] = (after[off] + 1) % 128
            if v.reshape(-1)[0:1].tobytes()[0] != (after[off] + 1) % 128:
                R.fail("to_nplike:view-does-not-alias", f"{kind}.to_nplike({off},{dt},{shape}): a buffer write is not seen through the existing view", ctx)
        R.tags["to_nplike"] += 1
    # ---- update_from_nplike
    for _ in range(n_cases):
        sdt = np.dtype(r.choice(DTYPES))
        ddt = np.dtype(r.choice(DTYPES))
        layout = r.choice(["c", "c", "f", "strided", "perm3", "scalar-1d", "rev"])
        if layout == "c":
            shape = r.choice([(1,), (3,), (2, 2), (2, 3)])
            arr = rand_array(r, sdt, shape)
        elif layout == "f":
            arr = rand_array(r, sdt, (3, 2)).T
        elif layout == "strided":
            arr = rand_array(r, sdt, (6,))[::2]
        elif layout == "rev":
            arr = rand_array(r, sdt, (4,))[::-1]
        elif layout == "perm3":
            arr = rand_array(r, sdt, (3, 2, 2)).transpose(1, 0, 2)
        else:
            arr = rand_array(r, sdt, (2,))
        if sdt.itemsize > 1 and r.random() < 0.3:
            # the same numbers held in the OTHER byte order (e.g. read from a big-endian file): a dtype that compares unequal to the
            # native one although it has the same name, kind and width - it must be converted, not copied byte for byte
            arr = arr.astype(sdt.newbyteorder("S"))
            layout += "+swapped"
        nb = ddt.itemsize * arr.size
        if nb > cap:
            continue
        off = r.randrange(0, cap - nb + 1)
        b, before = mk_buffer(kind, cap, r)
        ctx = {"kind": kind, "cap": cap, "prim": "update_from_nplike", "args": (off, str(arr.dtype), str(ddt), layout, arr.tolist())}
        ok, _ = call(R, "update_from_nplike." + layout, kind, lambda: b.update_from_nplike(off, ddt, arr), ctx)
        if not ok:
            continue
        after = image(b)
        with np.errstate(all="ignore"):
            want_src = np.ascontiguousarray(arr).astype(ddt).reshape(-1).tobytes()
        check_splice(R, "update_from_nplike." + layout, kind, before, after, off, want_src, ctx)
        R.tags[f"update_from_nplike.{layout}.{'conv' if sdt != ddt else 'same'}"] += 1
        if sdt.kind in "iu" and ddt.kind in "iu":
            elems = [int(x) % (1 << (8 * sdt.itemsize)) for x in np.ascontiguousarray(arr).reshape(-1).tolist()]
            R.add(f"nplike {hx(before)} {off} {sdt.itemsize} {1 if sdt.kind == 'i' else 0} {ddt.itemsize} " + (",".join(map(str, elems)) or "-"),
                  "ok " + hx(after), ctx)


def rand_array(r, dt, shape):
    n = int(np.prod(shape))
    if dt.kind == "f":
        vals = [r.choice([0.0, 1.5, -2.25, 100.0, 3.0, -7.0]) for _ in range(n)]
    else:
        info = np.iinfo(dt)
        vals = [r.choice([info.min, info.max, 0, 1, r.randint(info.min, info.max)]) for _ in range(n)]
    return np.array(vals, dtype=dt).reshape(shape)


def run_all(tier, seed):
    r = random.Random(seed * 15485863 + 17)
    R = Rec()
    maxcap = {"quick": 7, "thorough": 18}[tier]
    cross_all = ("same", "other", "otherkind", "same-otherkind")
    distinct = 0
    for kind in ("numpy", "bytearray"):
        for cap in range(0, maxcap + 1):
            for off in range(0, cap + 1):
                for n in range(0, cap - off + 1):
                    run_case(R, kind, cap, off, n, r, cross_all)
                    distinct += 1
        for cap in ([16, 33] if tier == "quick" else [16, 33, 64, 257, 1000]):
            for _ in range(10 if tier == "quick" else 150):
                off = r.randrange(0, cap + 1)
                n = r.randrange(0, cap - off + 1)
                run_case(R, kind, cap, off, n, r, cross_all)
                distinct += 1
            run_views(R, kind, cap, r, 40 if tier == "quick" else 600)
            run_growth(R, kind, cap, r)
        for cap in (0, 1, 5, 64):
            run_growth(R, kind, cap, r)
    got = common.run_driver_sharded("prim", [[l] for l in R.lines], nproc=8)
    mism = []
    for l, e, g, c in zip(R.lines, R.expect, got, R.ctxs):
        if e != g[0]:
            mism.append(common.Failure("tie", "prim-tie:" + l.split()[0], f"{c['kind']}.{c['prim']} {str(c['args'])[:200]}: implementation `{e[:120]}` model `{g[0][:120]}`", c))
    return {"failures": R.fails, "mismatches": mism, "lines": len(R.lines), "distinct": distinct + sum(v for k, v in R.tags.items() if "nplike" in k),
            "tags": dict(R.tags), "samples": [l[:160] for l in R.lines[5::max(1, len(R.lines) // 6)]][:6]}
