"""C03 — layout family; see harness/layout.py and harness/props/_layout.py"""
from ._layout import make

PROP = "C03"
run, search, replay = make(PROP, ('C03:',),
                           'Oracle C03: byte diff of the whole buffer restricted to the complement of the extents reserved during the operation; reported size vs reserved extent; nested parts inside the parent; siblings disjoint.',
                           [],
                           ['for nodes (static structs of scalars, Ref and UnionRef fields) the frame of every reference operation is a theorem (C03_ref_ops_frame / C03_ref_ops_disjoint); for references held in dynamic structs and arrays the extents of newly created objects are taken from the traced allocate() calls (tie + oracle)'], rg=True)
