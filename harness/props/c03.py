"""C03 — layout family; see harness/layout.py and harness/props/_layout.py"""
from ._layout import make

PROP = "C03"
run, search, replay = make(PROP, ('C03:',),
                           'Oracle C03: byte diff of the whole buffer restricted to the complement of the extents reserved during the operation; reported size vs reserved extent; nested parts inside the parent; siblings disjoint.',
                           [],
                           ['extents of objects newly created for references are taken from the traced allocate() calls (tie + oracle), not from a theorem'])
