"""C02 — generated C accessors address the same bytes as the Python view"""
from .. import capi, common

PROP = "C02"
KEYS = ("C02:",)


def _mine(fs):
    return [f for f in fs if f.key.startswith(KEYS)]


def run(tier, seed):
    r = capi.run_all(tier, seed)
    return {
        "failures": _mine(r["failures"]),
        "mismatches": r["mismatches"],
        "evaluations": r["lines"],
        "distinct_nontrivial": r["distinct"],
        "traces": r["lines"],
        "rule": "random compound types of the grammar (depth 1-3; structs of 0-4 fields; arrays of 1-3 dims, static/dynamic/zero "
                "dims, any axis order; Ref; UnionRef of 1-3 members); (a) exact text of the real _gen_c_api() vs the Lean port "
                "that prints the statement IR of the theorems; (b) a subset compiled through ctx.add_kernels, every accessor "
                "(get/getp/len/typeid/member) of every path called through cffi with in-range index tuples on a real object at "
                "a non-zero buffer offset, compared with CFun.eval on the same buffer image and with the Python accessors; "
                "distinct by type expression plus accessor call",
        "samples": r["samples"],
        "tags": r["tags"],
        "correspondence": {"capi": {"lines": r["lines"], "accessor_calls": r["evals"], "mismatches": len(r["mismatches"]),
                                    "type_histogram": r["hist"]}},
        "assumptions": ["the C semantics of the five statement forms printed by Stmt.print (offset+=k; offset+=*(int64_t*)(obj+offset+k); "
                        "stride loads; index step) is the trusted reading given by Stmt.exec; validated on every compiled accessor call",
                        "array classes differing only in axis order share a __name__ (not generated into one build)",
                        "int64 arithmetic of the generated code does not overflow (objects smaller than 2^62 bytes)"],
        "partial": ["C02_py (documented address = address used by the Python view) is witnessed by the oracle on every compiled "
                    "call and proved for the layout model under C06; it is not restated here"],
    }


def search(mismatches, seed):
    out = []
    for s in range(3):
        out.extend(_mine(capi.run_all("quick", seed + 500 + s, want=("ceval",))["failures"]))
        if out:
            break
    if not out:
        out.extend(_mine(capi.run_all("thorough", seed + 503, want=("ceval",))["failures"]))
    return out


def replay(rep):
    print("replay: re-running the C02 oracle with the recorded seed")
    r = capi.run_all(rep.get("tier", "quick"), rep.get("seed", 0), want=("ceval",))
    fails = _mine(r["failures"])
    for x in fails[:5]:
        print("oracle:", x.key, x.what[:300])
    if fails:
        print(f"VIOLATION property={PROP} replay=(replayed)")
        return 1
    print("replay: property holds on this input")
    return 0
