"""C12 — the allocator is first-fit, leak-free, coalescing, and free never fails"""
from .. import alloc, common

PROP = "C12"


def _mine(fs):
    return [f for f in fs if f.key.startswith(PROP + ":")]


def run(tier, seed):
    r = alloc.run_all(tier, seed)
    return {
        "failures": _mine(r["failures"]),
        "mismatches": r["mismatches"],
        "evaluations": r["lines"],
        "distinct_nontrivial": r["distinct"],
        "traces": r["cases"],
        "rule": "allocator histories (corpus, random state-dependent histories over both CPU buffer kinds, "
                "capacities 0..1000, alignments 1..64, grow_step unset/1/7/64/1000, exact-fit / zero / growth-forcing "
                "sizes, frees of any live region, writes into live regions, plus every history of length <= "
                f"{2 if tier == 'quick' else 4} over a small alphabet); a case is distinct by (config, op list) and "
                "non-trivial when it has at least two operations; evaluations = protocol lines compared with the model",
        "samples": r["samples"],
        "tags": r["tags"],
        "correspondence": {"alloc": {"cases": r["cases"], "lines": r["lines"], "exhaustive_small_scope_cases": r["exhaustive_cases"],
                                      "mismatches": len(r["mismatches"])}},
        "assumptions": ["NumPy / bytearray slice assignment copies bytes as Python documents (C13 covers the primitives)"],
    }


def search(mismatches, seed):
    out = []
    for s in range(3):
        out.extend(_mine(alloc.run_all("thorough" if s == 0 else "quick", seed + 1000 + s, want_exhaustive=(s == 0))["failures"]))
        if out:
            break
    return out


def replay(rep):
    f = rep.get("failure") or (rep.get("mismatches") or [{}])[0]
    fails, mism = alloc.replay(f["replay"])
    for x in fails:
        print("oracle:", x.key, x.what)
    for l, e, g in mism[:3]:
        print(f"tie: `{l}` impl `{e[:120]}` model `{g[:120]}`")
    bad = [x for x in fails if x.key.startswith(PROP + ":")]
    if bad:
        print(f"VIOLATION property={PROP} replay=(replayed)")
        return 1
    print("replay: property holds on this input" + (" (model and code still differ)" if mism else ""))
    return 0
