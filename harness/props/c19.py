"""C19 — dictionary and JSON forms rebuild an equal object"""
from .. import hybrid, layout, common

PROP = "C19"


def _mine(fs):
    return [f for f in fs if f.key.startswith("C19:")]


def run(tier, seed):
    a = hybrid.run_dict(tier, seed)
    b = layout.run_json(tier, seed)
    tags = dict(a["tags"])
    tags.update(b["tags"])
    return {
        "failures": _mine(a["failures"]) + _mine(b["failures"]),
        "mismatches": a["mismatches"] + b["mismatches"],
        "evaluations": a["lines"] + b["lines"],
        "distinct_nontrivial": a["distinct"] + b["distinct"],
        "traces": a["lines"] + b["lines"],
        "rule": "(dictionary form) every live hybrid instance at the end of generated histories (nested hybrids, references to hybrids, "
                "renamed fields, declared defaults, values equal and unequal to the defaults): to_dict() compared with the model's "
                "dictionary, elision checked per field, from_dict(to_dict(x)) compared with x; (JSON form) random reference-free "
                "types whose arrays are one-dimensional (structs of scalars / strings / nested structs / arrays, nested to depth 3): "
                "x._to_json() compared with the model's JSON and T(x._to_json()) with x",
        "samples": a["samples"][:3] + b["samples"][:3],
        "tags": tags,
        "correspondence": {"dict": {"lines": a["lines"] + b["lines"], "mismatches": len(a["mismatches"]) + len(b["mismatches"])}},
        "assumptions": ["default factories are deterministic", "NumPy broadcasting inside np.any(default != value) is compared, not modelled"],
        "partial": ["array-valued hybrid fields (nplike) are compared by the oracle only; the model's values are numbers, nested objects and references"],
    }


def search(mismatches, seed):
    out = []
    for s in range(2):
        out.extend(_mine(hybrid.run_dict("quick", seed + 1900 + s)["failures"]))
        out.extend(_mine(layout.run_json("quick", seed + 1900 + s)["failures"]))
        if out:
            break
    return out


def replay(rep):
    out = _mine(hybrid.run_dict(rep.get("tier", "quick"), rep.get("seed", 0))["failures"]) + \
        _mine(layout.run_json(rep.get("tier", "quick"), rep.get("seed", 0))["failures"])
    for x in out[:5]:
        print("oracle:", x.key, x.what[:300])
    if out:
        print(f"VIOLATION property={PROP} replay=(replayed)")
        return 1
    print("replay: property holds on this input")
    return 0
