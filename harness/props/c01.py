"""C01 — layout family; see harness/layout.py and harness/props/_layout.py"""
from ._layout import make

PROP = "C01"
run, search, replay = make(PROP, ('C01:',),
                           'Oracle C01: every field, item and nested accessor of the constructed object (and to_nplike of scalar arrays) returns the value the generator intended.',
                           [],
                           ["references / union references and copy-construction from existing objects are outside the kernel-checked round trip (C01_roundtrip_partial covers the reference-free grammar); they are covered by the executable heap model's tie and the oracle", 'the conversion of input forms (nested lists, ndarray, dict) to the canonical value, and index order <-> memory order, are executable glue (Drv/LayP.lean) tied on every case, not theorems'], rg=True)
