"""C08 — heap component; see harness/heap.py"""
from .. import heap, common

PROP = "C08"
PREFIX = ('C08:',)
_cache = {}


def _mine(fs):
    return [f for f in fs if f.key.startswith(PREFIX)]


def _run(tier, seed):
    if (tier, seed) not in _cache:
        _cache[(tier, seed)] = heap.run_all(tier, seed)
    return _cache[(tier, seed)]


def run(tier, seed):
    r = _run(tier, seed)
    return {
        "failures": _mine(r["failures"]),
        "mismatches": r["mismatches"],
        "evaluations": r["lines"],
        "distinct_nontrivial": r["distinct"],
        "traces": r["lines"],
        "rule": "random types biased to hold Ref / UnionRef slots (in structs and as array items), three poison-filled buffers in two "
                "contexts with traced allocate(): construction; copy-construction from the object or from an earlier copy into the same "
                "buffer / another buffer of the context / another context; a scalar write to source or copy; binding of a reference "
                "slot to an object of the same buffer, an object of another buffer or context, plain data, None; writes through the "
                "reference and through the original; growth of the holder's buffer - after every step the bytes of ALL buffers and the "
                "deep values are compared with the executable Lean heap model. " + "Oracle C08: aliasing (same offset, no allocation, writes visible both ways), fresh disjoint referent in the holder's buffer for plain data / foreign objects, None reads back None with member index -1, and after EVERY step every non-null reference reachable from every live object resolves (from the raw slot bytes) to the start of a live extent of the recorded member type in its own buffer - also after growth.",
        "samples": r["samples"],
        "tags": r["tags"],
        "correspondence": {"heap": {"lines": r["lines"], "mismatches": len(r["mismatches"]), "type_histogram": r["hist"]}},
        "assumptions": ['offsets below 2^62', 'class names identify member types (array classes differing only in axis order share a name: not generated together)'],
        "partial": ['the history-level invariant (all references of all live objects valid after every operation) is checked by the oracle on generated histories; the kernel-checked theorems are slot-level (C08_null, C08_alias, C08_union_member, C08_growth_*) plus C08_copy_fresh = C04_alloc'],
    }


def search(mismatches, seed):
    out = []
    for s in range(2):
        out.extend(_mine(heap.run_all("quick", seed + 8000 + s, n=500)["failures"]))
        if out:
            break
    return out


def replay(rep):
    out = _mine(heap.run_all(rep.get("tier", "quick"), rep.get("seed", 0))["failures"])
    for x in out[:5]:
        print("oracle:", x.key, x.what[:300])
    if out:
        print(f"VIOLATION property={PROP} replay=(replayed)")
        return 1
    print("replay: property holds on this input")
    return 0
