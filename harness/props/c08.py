"""C08 — heap component; see harness/heap.py"""
from .. import heap, refgraph, hybrid, common

PROP = "C08"
PREFIX = ('C08:',)
_cache = {}


def _mine(fs):
    return [f for f in fs if f.key.startswith(PREFIX)]


def _run(tier, seed):
    if (tier, seed) not in _cache:
        _cache[(tier, seed)] = heap.run_all(tier, seed)
    return _cache[(tier, seed)]


def _rg(tier, seed):
    if ("rg", tier, seed) not in _cache:
        _cache[("rg", tier, seed)] = refgraph.run_all(tier, seed)
    return _cache[("rg", tier, seed)]


def _hyb(tier, seed):
    if ("hyb", tier, seed) not in _cache:
        _cache[("hyb", tier, seed)] = hybrid.run_all(tier, seed)
    return _cache[("hyb", tier, seed)]


def run(tier, seed):
    r = _run(tier, seed)
    g = _rg(tier, seed)
    hy = _hyb(tier, seed)      # reference fields of hybrid objects (hybrid_class.py is one of the anchors): oracle keys C08:hybrid-*
    return {
        "failures": _mine(r["failures"]) + _mine(g["failures"]) + _mine(hy["failures"]),
        "mismatches": r["mismatches"] + g["mismatches"],
        "evaluations": r["lines"] + g["lines"],
        "distinct_nontrivial": r["distinct"] + g["distinct"],
        "traces": r["lines"] + g["lines"],
        "rule": "random types biased to hold Ref / UnionRef slots (in structs and as array items), three poison-filled buffers in two "
                "contexts with traced allocate(): construction; copy-construction from the object or from an earlier copy into the same "
                "buffer / another buffer of the context / another context; a scalar write to source or copy; binding of a reference "
                "slot to an object of the same buffer, an object of another buffer or context, plain data, None; writes through the "
                "reference and through the original; growth of the holder's buffer - after every step the bytes of ALL buffers and the "
                "deep values are compared with the executable Lean heap model. " + "Oracle C08: aliasing (same offset, no allocation, writes visible both ways), fresh disjoint referent in the holder's buffer for plain data / foreign objects, None reads back None with member index -1, and after EVERY step every non-null reference reachable from every live object resolves (from the raw slot bytes) to the start of a live extent of the recorded member type in its own buffer - also after growth. "
                "Component rg (tie of the PROOF model the history theorem C08_ref_history is about): random universes of node classes "
                "(static structs of Int64 / Ref / UnionRef fields; in half of the cases every run of identical reference fields is declared as ONE static array of references - the same bytes, accessed through array.py), random buffer configurations (both CPU kinds, capacity 0..1000, "
                "alignment 1..64, grow steps), random histories of construct / bind-to-existing / bind-to-plain-data / "
                "bind-to-foreign-object / bind-to-null / write-through-original / write-through-ref / raw allocations / growth; after "
                "every operation capacity, checksum of all bytes and what every reference slot of every live node denotes are compared "
                "with the model, and the same oracle is evaluated from the raw slot bytes.",
        "samples": r["samples"] + g["samples"],
        "tags": {**r["tags"], **{"rg." + k: v for k, v in g["tags"].items()}},
        "correspondence": {"heap": {"lines": r["lines"], "mismatches": len(r["mismatches"]), "type_histogram": r["hist"]},
                           "rg": {"cases": g["cases"], "lines": g["lines"], "mismatches": len(g["mismatches"])}},
        "assumptions": ['offsets below 2^62', 'class names identify member types (array classes differing only in axis order share a name: not generated together)'],
        "partial": ['the history-level invariant is a theorem (C08_ref_history) for node classes made of 8-byte scalars, Ref and UnionRef fields inside one buffer; for the rest of the grammar (references held in arrays and dynamic structs, referents that are arrays) it is checked by the oracle on generated histories against the executable heap model'],
    }


def search(mismatches, seed):
    out = []
    for s in range(2):
        out.extend(_mine(heap.run_all("quick", seed + 8000 + s, n=500)["failures"]))
        out.extend(_mine(refgraph.run_all("quick", seed + 8000 + s, n=600)["failures"]))
        out.extend(_mine(hybrid.run_all("quick", seed + 8000 + s)["failures"]))
        if out:
            break
    return out


def replay(rep):
    f = rep.get("failure") or (rep.get("mismatches") or [{}])[0]
    if (f.get("replay") or {}).get("component") == "hyb":
        import collections
        fl = []
        hybrid.replay_ops(f["replay"]["ops"], fl, collections.Counter())
        for x in fl[:5]:
            print("oracle:", x.key, x.what[:300])
        if _mine(fl):
            print(f"VIOLATION property={PROP} replay=(replayed)")
            return 1
        print("replay: property holds on this input")
        return 0
    if (f.get("replay") or {}).get("component") == "rg":
        fails, mism = refgraph.replay(f["replay"])
        for x in fails[:5]:
            print("oracle:", x.key, x.what[:300])
        for l, e, g in mism[:3]:
            print(f"tie: `{l}` impl `{e[:160]}` model `{g[:160]}`")
        if _mine(fails):
            print(f"VIOLATION property={PROP} replay=(replayed)")
            return 1
        print("replay: property holds on this input" + (" (model and code still differ)" if mism else ""))
        return 0
    out = _mine(heap.run_all(rep.get("tier", "quick"), rep.get("seed", 0))["failures"])
    for x in out[:5]:
        print("oracle:", x.key, x.what[:300])
    if out:
        print(f"VIOLATION property={PROP} replay=(replayed)")
        return 1
    print("replay: property holds on this input")
    return 0
