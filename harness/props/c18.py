"""C18 — hybrid objects mirror their buffer data; copy/move keep value and ownership"""
from .. import hybrid, common

PROP = "C18"


def _mine(fs):
    return [f for f in fs if f.key.startswith("C18:")]


def run(tier, seed):
    r = hybrid.run_all(tier, seed)
    return {
        "failures": _mine(r["failures"]),
        "mismatches": r["mismatches"],
        "evaluations": r["lines"],
        "distinct_nontrivial": r["distinct"],
        "traces": r["lines"],
        "rule": "generated HybridClass universes (Leaf / Mid / Top; every compound field independently a nested hybrid or a Ref to a "
                "hybrid; renamed fields; declared defaults; the leaf classes also hold a string, a 2-D array of static shape and two 1-D "
                "arrays of dynamic shape that may be empty) on three buffers in two contexts, and histories of 8-24 operations: "
                "construction from plain / dressed / None values, attribute get and set (numbers, dressed objects of any buffer, "
                "None, texts), copy, move, pure-Python attributes; every answer (value, class, buffer, which handles share its location, "
                "_movable, Python attributes, exception class) compared with the Lean model; oracle after EVERY operation: for every "
                "live handle and field the attribute equals the underlying buffer data (numbers, nested values, location of the "
                "dressed object vs location the buffer records), move leaves no dressed part behind and keeps the value",
        "samples": r["samples"],
        "tags": r["tags"],
        "correspondence": {"hyb": {"lines": r["lines"], "mismatches": len(r["mismatches"])}},
        "assumptions": ["the Python object graph (which object is cached under _dressed_<field>) is abstracted to locations, _movable "
                        "and Python attributes; object identity itself is not compared"],
        "partial": ["C18_mirror_history proves the invariant for the MODEL over all histories; that the model is the library is the tie on "
                    "generated histories plus the Mirror oracle on the library after every operation; O-30 (stale cached offsets of "
                    "earlier views) is below the model's abstraction and is a listed known finding"],
    }


def search(mismatches, seed):
    out = []
    for s in range(3):
        out.extend(_mine(hybrid.run_all("quick", seed + 1800 + s)["failures"]))
        if out:
            break
    return out


def minimize(failure):
    """greedy removal of operations from the recorded history while a failure with the same key remains"""
    import collections
    ops = (failure.replay or {}).get("ops")
    if failure.kind != "oracle" or not ops or len(ops) < 6:
        return failure

    def fails_with(cand):
        fl, tg = [], collections.Counter()
        try:
            hybrid.replay_ops(cand, fl, tg)
        except Exception:
            return None
        hit = [f for f in fl if f.key == failure.key]
        return hit[0] if hit else None

    best, best_f = list(ops), None
    changed = True
    while changed:
        changed = False
        for i in range(len(best) - 1, 3, -1):
            cand = best[:i] + best[i + 1:]
            f2 = fails_with(cand)
            if f2 is not None:
                best, best_f, changed = cand, f2, True
    if best_f is None or len(best) >= len(ops):
        return failure
    rep = dict(failure.replay, ops=best, minimized_from=len(ops))
    return common.Failure(failure.kind, failure.key, best_f.what + f" [history shrunk from {len(ops)} to {len(best)} lines]", rep)


def replay(rep):
    """re-executes the recorded history on the real library and on the model"""
    import collections
    item = rep.get("failure") or (rep.get("mismatches") or [{}])[0]
    ops = (item.get("replay") or {}).get("ops")
    if not ops:
        print("replay: no recorded history in this file")
        return 2
    fails, tags = [], collections.Counter()
    c = hybrid.replay_ops(ops, fails, tags)
    got = common.run_driver("hyb", c.ops)
    bad = [(l, e, g) for l, e, g in zip(c.ops, c.exp, got) if e is not None and e != g]
    known = common.load_known()
    out = []
    for f in _mine(fails):
        k = common.match_known(PROP, f, known)
        if k is None:
            out.append(f)
            print("oracle:", f.key, f.what[:300])
        else:
            print(f"KNOWN-FINDING: property={PROP} {k['id']}: {f.what[:200]}")
    for l, e, g in bad[:3]:
        print(f"model/implementation differ at `{l}`: implementation `{e}` model `{g}`")
    if out:
        print(f"VIOLATION property={PROP} replay=(replayed)")
        return 1
    if bad:
        print(f"VIOLATION property={PROP} replay=(replayed) no-failing-input-found")
        return 1
    print("replay: property holds on this input")
    return 0
