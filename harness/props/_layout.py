"""shared body of the layout-family property modules (C01, C03, C05, C06, C10, C11)"""
from .. import layout, heap, refgraph, common

_cache = {}


def _heap(tier, seed):
    key = ("heap", tier, seed)
    if key not in _cache:
        _cache[key] = heap.run_all(tier, seed)
    return _cache[key]


def _run(tier, seed, refs):
    key = (tier, seed, refs)
    if key not in _cache:
        _cache[key] = layout.run_all(tier, seed, refs=refs)
    return _cache[key]


def _rg(tier, seed):
    key = ("rg", tier, seed)
    if key not in _cache:
        _cache[key] = refgraph.run_all(tier, seed)
    return _cache[key]


_EMPTY = {"failures": [], "mismatches": [], "lines": 0, "distinct": 0, "tags": {}, "cases": 0}


def make(prop, prefixes, rule, assumptions, partial, rg=False):
    def mine(fs):
        return [f for f in fs if f.key.startswith(prefixes)]

    def run(tier, seed):
        a = _run(tier, seed, False)
        b = _run(tier, seed, True)
        hp = _heap(tier, seed)      # assignments of EXISTING objects to nested slots, copies, references (shared with C08/C09)
        tags = {("noref." + k): v for k, v in a["tags"].items()}
        tags.update({("refs." + k): v for k, v in b["tags"].items()})
        tags.update({("heap." + k): v for k, v in hp["tags"].items()})
        g = _rg(tier, seed) if rg else _EMPTY      # node histories: the tie of the reference-graph proof model (C10_node_update)
        tags.update({("rg." + k): v for k, v in g["tags"].items()})
        return {
            "failures": mine(a["failures"]) + mine(b["failures"]) + mine(hp["failures"]) + mine(g["failures"]),
            "mismatches": a["mismatches"] + b["mismatches"] + hp["mismatches"] + g["mismatches"],
            "evaluations": a["lines"] + b["lines"] + hp["lines"] + g["lines"],
            "distinct_nontrivial": a["distinct"] + b["distinct"] + hp["distinct"] + g["distinct"],
            "traces": a["lines"] + b["lines"] + hp["lines"] + g["lines"],
            "rule": "random types of the whole grammar (depth 1-3; structs with 0-4 static/dynamic fields; arrays of 1-3 dims, static/"
                    "dynamic/zero-length dims, any axis order, scalar/string/struct/array/Ref/UnionRef items; a reference-free and a "
                    "reference-bearing stream) x values (integer extremes, inf, -0.0, multi-byte UTF-8, empty strings/arrays, string "
                    "capacities) x input forms (nested lists, ndarray, object ndarray) x placements (capacity 0..1024 forcing growth, "
                    "default alignment 1..64, prior allocations and frees, poison-filled memory): the real object is constructed with "
                    "buffer.allocate traced; offset, size, capacity and the WHOLE buffer image, deep reads through handle and view, "
                    "element reads, bad indices, fitting / misfitting / wrong-shape assignments (image after each, also at a raise) are "
                    "compared with the executable Lean model; for reference-free cases the proof model's own definitions (patchesD, "
                    "readD, setScalar, rewriteStr) are executed on the same case; the heap stream additionally assigns existing "
                    "objects (same sizes / other sizes, from any buffer) to nested struct and array slots. " + rule,
            "samples": a["samples"][:3] + b["samples"][:3],
            "tags": tags,
            "correspondence": {"lay": {"lines": a["lines"] + b["lines"], "mismatches": len(a["mismatches"]) + len(b["mismatches"]),
                                       "type_histogram": {"noref": a["hist"], "refs": b["hist"]}},
                               **({"rg": {"cases": g["cases"], "lines": g["lines"], "mismatches": len(g["mismatches"])}} if rg else {})},
            "assumptions": ["text values do not end in NUL (the format is NUL-terminated; Python's rstrip would drop it)",
                            "N-D values with a zero-length dimension are given as ndarrays (nested lists cannot express their shape)",
                            "every stored word is below 2^63 (objects smaller than 2^63 bytes)"] + assumptions,
            "partial": partial,
        }

    def search(mismatches, seed):
        out = []
        for s in range(2):
            for refs in (False, True):
                out.extend(mine(layout.run_all("quick", seed + 4000 + s, refs=refs, n=700)["failures"]))
            out.extend(mine(heap.run_all("quick", seed + 4000 + s, n=700)["failures"]))
            if rg:
                out.extend(mine(refgraph.run_all("quick", seed + 4000 + s, n=600)["failures"]))
            if out:
                break
        return out

    def replay(rep):
        f = rep.get("failure") or (rep.get("mismatches") or [{}])[0]
        if (f.get("replay") or {}).get("component") == "rg":
            fails, mism = refgraph.replay(f["replay"])
            for x in fails[:5]:
                print("oracle:", x.key, x.what[:300])
            for l, e, g_ in mism[:3]:
                print(f"tie: `{l}` impl `{e[:160]}` model `{g_[:160]}`")
            if mine(fails):
                print(f"VIOLATION property={prop} replay=(replayed)")
                return 1
            print("replay: property holds on this input" + (" (model and code still differ)" if mism else ""))
            return 0
        out = []
        for refs in (False, True):
            out.extend(mine(layout.run_all(rep.get("tier", "quick"), rep.get("seed", 0), refs=refs)["failures"]))
        out.extend(mine(heap.run_all(rep.get("tier", "quick"), rep.get("seed", 0))["failures"]))
        for x in out[:5]:
            print("oracle:", x.key, x.what[:300])
        if out:
            print(f"VIOLATION property={prop} replay=(replayed)")
            return 1
        print("replay: property holds on this input")
        return 0

    return run, search, replay
