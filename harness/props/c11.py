"""C11 — layout family; see harness/layout.py and harness/props/_layout.py"""
from ._layout import make

PROP = "C11"
run, search, replay = make(PROP, ('C11:',),
                           'Oracle C11: bad indices (negative, == dim, > dim, partial), wrong-shape array values, over-long strings and over-sized items must raise, and the whole buffer image must be byte-identical afterwards.',
                           ['known finding O-13: a dictionary update of a nested struct applies earlier fields before a later field raises (not atomic)'],
                           ['union membership (refused bindings in the node histories of the reference-graph stream: the model leaves the state unchanged), foreign-context buffers and offset-without-buffer are refusals checked by the tie and oracles, not theorems'], rg=True)
