"""C11 — layout family; see harness/layout.py and harness/props/_layout.py; placement refusals: harness/place.py"""
from ._layout import make
from .. import place

PROP = "C11"
_run, _search, replay = make(PROP, ('C11:',),
                             'Oracle C11: bad indices (negative, == dim, > dim, partial), wrong-shape array values, over-long strings and over-sized items must raise, and the whole buffer image must be byte-identical afterwards. '
                             'Placement (component `place`): allocate_on_buffer and the Struct / Array / String constructors with every combination of '
                             '_context (none / default / two others), _buffer (none / one per context) and _offset (none, "aligned", "packed", 0, 8, 24, 40) - '
                             '448 requests - against Place.decide (theorems C11_offset_without_buffer_refused, C11_foreign_context_refused, '
                             'C11_placement_refused_iff, C11_placement_accepted): refusal kind / chosen buffer / how the offset is obtained; a refusal '
                             'allocates nothing and changes no buffer.',
                             ['known finding O-13: a dictionary update of a nested struct applies earlier fields before a later field raises (not atomic)'],
                             ['union membership: refused bindings in the node histories of the reference-graph stream (theorem C11_nonmember_refused + tie); '
                              'array updates of another length / shape and nested items that are too large: executable model + oracle (the string case is a theorem)'], rg=True)
_cache = {}


def _place(tier, seed):
    if (tier, seed) not in _cache:
        _cache[(tier, seed)] = place.run_all(tier, seed)
    return _cache[(tier, seed)]


def run(tier, seed):
    r = _run(tier, seed)
    p = _place(tier, seed)
    r["failures"] = r["failures"] + [f for f in p["failures"] if f.key.startswith("C11:")]
    r["mismatches"] = r["mismatches"] + p["mismatches"]
    r["evaluations"] += p["lines"]
    r["traces"] += p["lines"]
    r["distinct_nontrivial"] += p["distinct"]
    r.setdefault("tags", {}).update({("place." + k): v for k, v in p["tags"].items()})
    if isinstance(r.get("correspondence"), dict):
        r["correspondence"]["place"] = {"lines": p["lines"], "mismatches": len(p["mismatches"])}
    return r


def search(mismatches, seed):
    out = [f for f in place.run_all("quick", seed + 1)["failures"] if f.key.startswith("C11:")]
    return out + _search(mismatches, seed)
