"""C17 — kernel calls deliver every argument and the return value faithfully"""
from .. import kcall, common

PROP = "C17"


def _mine(fs):
    return [f for f in fs if f.key.startswith("C17:")]


def run(tier, seed):
    r = kcall.run_all(tier, seed)
    return {
        "failures": _mine(r["failures"]),
        "mismatches": r["mismatches"],
        "evaluations": r["lines"] + r["evals"],
        "distinct_nontrivial": r["distinct"],
        "traces": r["lines"],
        "rule": "echo kernels built through the real ctx.add_kernels on a serial and an OpenMP CPU context and called through "
                "ctx.kernels.<name>(**kwargs): each of the 10 scalar types with extremes, +-0.0, inf and random values (returned "
                "bit-exact; out-of-range refused); compound objects created at random offsets of a buffer that is repeatedly grown "
                "(pointer == current storage + offset, bytes read and written by the kernel are the object's, after every growth); "
                "NumPy arrays (contiguous, offset slice, strided, 2-D, 2-D slice) and xobject arrays (static and dynamic shape) "
                "delivered as a pointer to their first element; void return; positional / missing / extra / renamed / wrong "
                "element type refused with the objects unchanged; the decision logic and address arithmetic of every call compared "
                "with the Lean model",
        "samples": r["samples"],
        "tags": r["tags"],
        "correspondence": {"kcall": {"lines": r["lines"], "kernel_calls": r["evals"], "mismatches": len(r["mismatches"])}},
        "assumptions": ["cffi's pointer element-type check, the C ABI and NumPy's scalar conversion are runtime: witnessed by the echo kernels only",
                        "a float given for an integer scalar is truncated by NumPy rather than refused (O-28): outside the listed refusals"],
        "partial": ["partial by nature: the theorems cover accept/refuse logic and address arithmetic; delivery itself is cffi"],
    }


def search(mismatches, seed):
    out = []
    for s in range(2):
        out.extend(_mine(kcall.run_all("quick" if s == 0 else "thorough", seed + 1700 + s)["failures"]))
        if out:
            break
    return out


def replay(rep):
    out = _mine(kcall.run_all(rep.get("tier", "quick"), rep.get("seed", 0))["failures"])
    for x in out[:5]:
        print("oracle:", x.key, x.what[:300])
    if out:
        print(f"VIOLATION property={PROP} replay=(replayed)")
        return 1
    print("replay: property holds on this input")
    return 0
