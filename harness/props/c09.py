"""C09 — heap component; see harness/heap.py"""
from .. import heap, refgraph, layout, hybrid, common

PROP = "C09"
PREFIX = ('C09:',)
_cache = {}


def _mine(fs):
    return [f for f in fs if f.key.startswith(PREFIX)]


def _run(tier, seed):
    if (tier, seed) not in _cache:
        _cache[(tier, seed)] = heap.run_all(tier, seed)
    return _cache[(tier, seed)]


def _rg(tier, seed):
    if ("rg", tier, seed) not in _cache:
        _cache[("rg", tier, seed)] = refgraph.run_all(tier, seed)
    return _cache[("rg", tier, seed)]


def _lay(tier, seed):
    if ("lay", tier, seed) not in _cache:
        _cache[("lay", tier, seed)] = layout.run_all(tier, seed, refs=False)
    return _cache[("lay", tier, seed)]


def _hyb(tier, seed):
    if ("hyb", tier, seed) not in _cache:
        _cache[("hyb", tier, seed)] = hybrid.run_all(tier, seed)
    return _cache[("hyb", tier, seed)]


def run(tier, seed):
    r = _run(tier, seed)
    g = _rg(tier, seed)
    la = _lay(tier, seed)      # copies made before a whole update through the element's own handle (run_resplit)
    hy = _hyb(tier, seed)      # HybridClass.copy() (one of the observation points): oracle key C09:hybrid-copy-*
    return {
        "failures": _mine(r["failures"]) + _mine(g["failures"]) + _mine(la["failures"]) + _mine(hy["failures"]),
        "mismatches": r["mismatches"] + g["mismatches"] + la["mismatches"],
        "evaluations": r["lines"] + g["lines"],
        "distinct_nontrivial": r["distinct"] + g["distinct"],
        "traces": r["lines"] + g["lines"],
        "rule": "random types biased to hold Ref / UnionRef slots (in structs and as array items), three poison-filled buffers in two "
                "contexts with traced allocate(): construction; copy-construction from the object or from an earlier copy into the same "
                "buffer / another buffer of the context / another context; a scalar write to source or copy; binding of a reference "
                "slot to an object of the same buffer, an object of another buffer or context, plain data, None; writes through the "
                "reference and through the original; growth of the holder's buffer - after every step the bytes of ALL buffers and the "
                "deep values are compared with the executable Lean heap model. " + "Oracle C09: the copy reads as the source's value; its extent is disjoint from the source's and lies in the requested buffer; a scalar write to either is not seen through the other; referents are the same objects when source and copy share a buffer and duplicates inside the copy's buffer otherwise.",
        "samples": r["samples"] + g["samples"],
        "tags": r["tags"],
        "correspondence": {"heap": {"lines": r["lines"], "mismatches": len(r["mismatches"]), "type_histogram": r["hist"]},
                           "rg": {"cases": g["cases"], "lines": g["lines"], "mismatches": len(g["mismatches"]),
                                  "copies": g["tags"].get("copy", 0),
                                  "copies_into_other_buffer": g["tags"].get("xcopy", 0) + g["tags"].get("xback", 0),
                                  "nodes_created_by_them": g["tags"].get("xcopy.nodes", 0),
                                  "skipped_cyclic_or_huge": g["tags"].get("xcopy.skipped-cyclic-or-huge", 0)}},
        "assumptions": ['offsets below 2^62'],
        "partial": ['types that hold references are rebuilt field-/item-wise: a theorem (C09_copy_shares_referents) for node classes (static structs of scalars, Ref and UnionRef fields) copied inside one buffer, and (C09_copy_into_other_buffer) copied into another buffer with all referents duplicated; references held in arrays / dynamic structs: executable heap model + oracle only; cyclic sources (RecursionError in the library) are not copied across buffers by the harness; HybridClass.copy() is covered under C18 (its reference clause - references of the copy resolve in the buffer of the copy - is also reported here, key C09:hybrid-copy-*)'],
    }


def search(mismatches, seed):
    out = []
    for s in range(2):
        out.extend(_mine(heap.run_all("quick", seed + 8000 + s, n=500)["failures"]))
        out.extend(_mine(refgraph.run_all("quick", seed + 8000 + s, n=600)["failures"]))
        out.extend(_mine(layout.run_all("quick", seed + 8000 + s, refs=False)["failures"]))
        if out:
            break
    return out


def replay(rep):
    f = rep.get("failure") or (rep.get("mismatches") or [{}])[0]
    if (f.get("replay") or {}).get("component") == "rg":
        fails, mism = refgraph.replay(f["replay"])
        for x in fails[:5]:
            print("oracle:", x.key, x.what[:300])
        for l, e, g in mism[:3]:
            print(f"tie: `{l}` impl `{e[:160]}` model `{g[:160]}`")
        if _mine(fails):
            print(f"VIOLATION property={PROP} replay=(replayed)")
            return 1
        print("replay: property holds on this input" + (" (model and code still differ)" if mism else ""))
        return 0
    out = _mine(heap.run_all(rep.get("tier", "quick"), rep.get("seed", 0))["failures"])
    for x in out[:5]:
        print("oracle:", x.key, x.what[:300])
    if out:
        print(f"VIOLATION property={PROP} replay=(replayed)")
        return 1
    print("replay: property holds on this input")
    return 0
