"""C06 — layout family; see harness/layout.py and harness/props/_layout.py"""
from ._layout import make

PROP = "C06"
run, search, replay = make(PROP, ('C06:',),
                           'Oracle C06: a view made by _from_buffer(buffer, offset) must read the same deep value and report the same size/shape/strides as the handle; assignments go through a randomly chosen one of the two and are read through the other.',
                           [],
                           ['strides cached by a view are compared by the oracle and the executable model (viewStrides), not proved'])
