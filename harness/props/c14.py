"""C14 — every class API is emitted once, after all of its dependencies; cycles are reported"""
from .. import topo, common

PROP = "C14"


def _mine(fs):
    return [f for f in fs if f.key.startswith(PROP + ":")]


def run(tier, seed):
    r = topo.run_all(tier, seed)
    return {
        "failures": _mine(r["failures"]),
        "mismatches": r["mismatches"],
        "evaluations": r["lines"],
        "distinct_nontrivial": r["distinct"],
        "traces": r["lines"],
        "rule": "random dependency sources (0..12 classes, duplicate edges, shuffled insertion order, 30% with cycles, 15% "
                "with parents that are not keys) given to the real topological_sort, and random universes of real xobjects "
                "classes (structs with/without fields, arrays, Ref, UnionRef, extra _depends_on incl. cyclic, repeated roots, "
                "root subsets in random order) given to the real sort_classes; distinct by protocol line; non-trivial = at "
                "least two classes",
        "samples": r["samples"],
        "tags": r["tags"],
        "correspondence": {"topo": {"lines": r["lines"], "mismatches": len(r["mismatches"])}},
        "assumptions": ["class names are unique per layout (array classes differing only in axis order share a __name__: "
                        "outside this property's per-class statement, generator avoids it)",
                        "_get_inner_types()/_depends_on of each class are inputs of the model (read from the real classes)"],
        "partial": ["the closure loop of sort_classes is modelled and tied (sortc lines) but the theorems are stated for the "
                    "closed source it produces; that the real build compiles is witnessed by real add_kernels builds only"],
    }


def search(mismatches, seed):
    out = []
    for s in range(2):
        out.extend(_mine(topo.run_all("thorough" if s == 0 else "quick", seed + 1000 + s)["failures"]))
        if out:
            break
    return out


def replay(rep):
    f = rep.get("failure") or (rep.get("mismatches") or [{}])[0]
    fails = topo.replay(f["replay"])
    for x in fails:
        print("oracle:", x.key, x.what)
    if fails:
        print(f"VIOLATION property={PROP} replay=(replayed)")
        return 1
    print("replay: property holds on this input")
    return 0
