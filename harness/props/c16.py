"""C16 — vectorised kernel blocks run once per index on every target"""
from .. import spec, common

PROP = "C16"


def _mine(fs):
    return [f for f in fs if f.key.startswith("C16:")]


def run(tier, seed):
    r = spec.run_all(tier, seed)
    return {
        "failures": _mine(r["failures"]),
        "mismatches": r["mismatches"],
        "evaluations": r["lines"],
        "distinct_nontrivial": r["distinct"],
        "traces": r["lines"],
        "rule": "random annotated sources (vectorize_over/end_vectorize incl. nested and malformed, only_for_context, include_file "
                "with generated files incl. missing ones, the four placeholders, wholly plain text) x four targets: exact text or "
                "exception class of the real specialize_source vs the Lean model; launch geometry of the REAL KernelCupy / "
                "KernelPyopencl.__call__ (recording fakes) vs the model for n in {0,1,..,2^31-1} and several block sizes; oracles: "
                "generated counting kernels built through ctx.add_kernels and run on serial and OpenMP CPU contexts, and their "
                "OpenCL/CUDA/CPU expansions compiled on the host with shims and launched with the recorded geometry, for n "
                "including 0: body executed exactly once per index 0..n-1, context-restricted lines and included files active "
                "only where named; unannotated text unchanged",
        "samples": r["samples"],
        "tags": r["tags"],
        "correspondence": {"spec": {"lines": r["lines"], "mismatches": len(r["mismatches"])}},
        "assumptions": ["what a C for-statement, an OpenCL NDRange and a CUDA grid execute is the trusted reading `execIndices`; "
                        "real device schedulers are absent (a driver may reject a zero-sized launch for n = 0: cannot be exhibited here)",
                        "float ceil(n/block) is exact below 2^53",
                        "LF-only ASCII sources (Python splitlines also splits on other separators)"],
        "partial": ["OpenMP scheduling inside kernels and real GPU execution are runtime: witnessed by the real OpenMP context and "
                    "by host simulation only"],
    }


def search(mismatches, seed):
    out = []
    for s in range(2):
        out.extend(_mine(spec.run_all("quick" if s == 0 else "thorough", seed + 900 + s)["failures"]))
        if out:
            break
    return out


def replay(rep):
    r = spec.run_all(rep.get("tier", "quick"), rep.get("seed", 0))
    fails = _mine(r["failures"])
    for x in fails[:5]:
        print("oracle:", x.key, x.what[:300])
    if fails:
        print(f"VIOLATION property={PROP} replay=(replayed)")
        return 1
    print("replay: property holds on this input")
    return 0
