"""C15 — OpenCL and CUDA accessor source computes the same addresses as CPU"""
from .. import spec, common

PROP = "C15"


def _mine(fs):
    return [f for f in fs if f.key.startswith("C15:")]


def run(tier, seed):
    r = spec.run_all(tier, seed)
    return {
        "failures": _mine(r["failures"]),
        # only the ties this property's theorems rest on: accessor API sources and their segment form
        "mismatches": [m for m in r["mismatches"] if (m.replay or {}).get("kind") == "api"],
        "evaluations": r["lines"],
        "distinct_nontrivial": r["distinct"],
        "traces": r["lines"],
        "rule": "accessor API source of random types and random annotated sources x the four targets: exact text of the real "
                "specialize_source vs the Lean model; for every generated API the driver evaluates the hypotheses of theorem "
                "C15_target_text (segmented form, no annotation line) so the theorem applies to that very source; oracles on the "
                "real output: qualifier-erased token streams of the opencl/cuda forms equal the cpu form, no placeholder left, "
                "every pointer type in the opencl form carries __global, each form accepted by the host compiler with the "
                "target keywords defined away (and executed on the host against the cpu form under C16); the CONTEXTS' own assembly: "
                "ContextPyopencl.build_kernels / ContextCupy.build_kernels run unchanged against recording stand-ins of pyopencl / cupy "
                "(harness/gpuprobe.py) and the program text behind the headers must equal the cpu context's up to qualifiers",
        "samples": r["samples"],
        "tags": r["tags"],
        "correspondence": {"spec": {"lines": r["lines"], "mismatches": len(r["mismatches"])}},
        "assumptions": ["Python str.replace/splitlines semantics as modelled (LF-only, ASCII; other line separators are outside the generator)",
                        "real OpenCL/CUDA compilers are absent: acceptance is witnessed by the host compiler with shims",
                        "pyopencl / cupy are absent: the GPU contexts' build_kernels run against stand-ins that accept everything and record "
                        "the program text (nothing is executed on a device)"],
        "partial": ["`every pointer into object memory is preceded by the gpuglmem placeholder in the generated source' is a property of "
                    "the generator's text checked by the oracle on every generated API, not a theorem"],
    }


def search(mismatches, seed):
    out = []
    for s in range(2):
        out.extend(_mine(spec.run_all("quick" if s == 0 else "thorough", seed + 900 + s)["failures"]))
        if out:
            break
    return out


def replay(rep):
    r = spec.run_all(rep.get("tier", "quick"), rep.get("seed", 0))
    fails = _mine(r["failures"])
    for x in fails[:5]:
        print("oracle:", x.key, x.what[:300])
    if fails:
        print(f"VIOLATION property={PROP} replay=(replayed)")
        return 1
    print("replay: property holds on this input")
    return 0
