"""C10 — layout family; see harness/layout.py and harness/props/_layout.py"""
from ._layout import make

PROP = "C10"
run, search, replay = make(PROP, ('C10:',),
                           "Oracle C10: after every accepted assignment the object must read as the intended value with exactly that element replaced, and no byte outside the object's extent may change.",
                           [],
                           ['the value-level statement for arbitrary nested paths (the object reads as the old value with that element replaced) is a theorem only for leaf slots + read locality (C10_other_parts_unchanged_partial); whole nested struct/array assignment is tie + oracle'])
