"""C10 — layout family; see harness/layout.py and harness/props/_layout.py"""
from ._layout import make

PROP = "C10"
run, search, replay = make(PROP, ('C10:',),
                           "Oracle C10: after every accepted assignment the object must read as the intended value with exactly that element replaced, and no byte outside the object's extent may change.",
                           [],
                           ['C10_set_leaf_at_path is the value-level statement for every nested path to a scalar element of every reference-free type (and C10_set_leaf_again its closure under sequences); assignment of a whole string is a byte-level theorem (C11_string_fit_*) plus read locality; assignment of a whole nested struct/array, paths through references, and interleaved buffer growth are tie + oracle', 'known finding O-30: a view obtained before an element was replaced as a whole (same size, other division) keeps stale cached offsets'], rg=True)
