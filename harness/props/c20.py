"""C20 — pickled objects come back usable, equal, and sharing what they shared"""
from .. import pickleh, common

PROP = "C20"


def _mine(fs):
    return [f for f in fs if f.key.startswith("C20:")]


def run(tier, seed):
    r = pickleh.run_all(tier, seed)
    return {
        "failures": _mine(r["failures"]),
        "mismatches": r["mismatches"],
        "evaluations": r["lines"] + r["tags"].get("writes", 0) + r["tags"].get("allocator", 0),
        "distinct_nontrivial": r["distinct"],
        "traces": r["lines"],
        "rule": "importable generated classes (a module written onto sys.path: static struct, struct with 2-3 dynamic fields, struct "
                "with a nested dynamic struct + Ref + N-D array field, arrays of scalars and of dynamic structs, hybrid classes with "
                "nested and referenced hybrids and a renamed field); 2-6 objects spread over three buffers with prior allocations; a "
                "random subset is sent through the REAL pickle.loads(pickle.dumps(.)); then: deep values equal, reads/writes on the "
                "result, writes do not cross between original and copy, sharing pattern vs the Lean model of the memoised graph "
                "copy, and each unpickled buffer compared with its original as an allocator (capacity, free total, offsets returned "
                "for the same request sequence, no overlap with the unpickled objects, free)",
        "samples": r["samples"],
        "tags": r["tags"],
        "correspondence": {"pk": {"lines": r["lines"], "mismatches": len(r["mismatches"])}},
        "assumptions": ["Python's pickle copies the reachable object graph visiting each object once (memo): this IS the model",
                        "array classes are made importable by assigning them at module level with __module__ set"],
        "partial": ["pickle itself is runtime; the theorems are about what __getstate__/__setstate__ make of a memoised graph copy: "
                    "C20_sharing, C20_independent, C20_buffer_copied, C20_allocator, C20_struct_usable"],
    }


def search(mismatches, seed):
    out = []
    for s in range(2):
        out.extend(_mine(pickleh.run_all("quick" if s == 0 else "thorough", seed + 2000 + s)["failures"]))
        if out:
            break
    return out


def replay(rep):
    out = _mine(pickleh.run_all(rep.get("tier", "quick"), rep.get("seed", 0))["failures"])
    for x in out[:5]:
        print("oracle:", x.key, x.what[:300])
    if out:
        print(f"VIOLATION property={PROP} replay=(replayed)")
        return 1
    print("replay: property holds on this input")
    return 0
