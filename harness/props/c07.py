"""C07 — C setters change exactly one element and accessors stay in bounds"""
from .. import capi, common

PROP = "C07"


def _mine(fs):
    return [f for f in fs if f.key.startswith(("C07:",))]


def run(tier, seed):
    r = capi.run_c07(tier, seed)
    return {
        "failures": _mine(r["failures"]),
        "mismatches": r["mismatches"],
        "evaluations": r["lines"] + r["evals"],
        "distinct_nontrivial": r["distinct"],
        "traces": r["lines"],
        "rule": "random compound types with an object at a non-zero offset of a buffer with prior allocations: every generated "
                "setter is called through cffi with a new value and the WHOLE buffer is diffed (only the element's bytes may "
                "change, to exactly the value) and re-read from Python; for every accessor and in-range index tuple the model's "
                "complete access list (CFun.accesses, theorem C07_loads/C07_accesses_get_set) must lie inside the object "
                "(inside the buffer for types with references) and be aligned to its width relative to the object start; the "
                "emitted cpu source is compiled stand-alone with clang -fsanitize=address,undefined, the buffer image placed "
                "flush against the end of an exactly sized heap block, and every accessor call run under the sanitizers",
        "samples": r["samples"],
        "tags": r["tags"],
        "correspondence": {"capi": {"lines": r["lines"], "mismatches": len(r["mismatches"])}},
        "assumptions": ["what the C compiler emits for the five statement forms is witnessed by the sanitizer runs only (runtime)",
                        "int64 arithmetic does not overflow for objects smaller than 2^62 bytes"],
        "partial": ["in bounds: C07_leaf_in_extent / C07_store_in_extent prove that the element at the end of every nested path of a "
                    "writer-produced reference-free object lies inside the object's extent and that the store changes only its "
                    "bytes; that the address the C accessor computes (docAddr, C02_addr) IS that leaf address is executed (lay "
                    "driver: leafAt against the library's slot addresses; capi: compiled calls) and run under ASan/UBSan, not "
                    "a theorem; header loads in bounds and paths through references: sanitizers and the model's access lists"],
    }


def search(mismatches, seed):
    out = []
    for s in range(2):
        out.extend(_mine(capi.run_c07("quick" if s == 0 else "thorough", seed + 700 + s)["failures"]))
        if out:
            break
    return out


def replay(rep):
    r = capi.run_c07(rep.get("tier", "quick"), rep.get("seed", 0))
    fails = _mine(r["failures"])
    for x in fails[:5]:
        print("oracle:", x.key, x.what[:300])
    if fails:
        print(f"VIOLATION property={PROP} replay=(replayed)")
        return 1
    print("replay: property holds on this input")
    return 0
