"""C13 — CPU buffer copy primitives move exactly the requested bytes"""
from .. import bufprim, common

PROP = "C13"


def _mine(fs):
    return [f for f in fs if f.key.startswith("C13:")]


def run(tier, seed):
    r = bufprim.run_all(tier, seed)
    return {
        "failures": _mine(r["failures"]),
        "mismatches": r["mismatches"],
        "evaluations": r["lines"],
        "distinct_nontrivial": r["distinct"],
        "traces": r["lines"],
        "rule": "both CPU buffer kinds (BufferNumpy, BufferByteArray), EVERY (offset, length) pair of every capacity 0..7 (quick) / "
                "0..18 (thorough) plus random larger ones, every primitive (update_from_native, to_native, copy_to_native, "
                "update_from_buffer from bytes/bytearray/memoryview/ndarray.data, to_bytearray, update_from_xbuffer from the same "
                "context / another context / the other buffer kind / the buffer itself incl. overlapping ranges, to_nplike views, "
                "update_from_nplike for all 10x10 dtype pairs and C / F / strided / reversed / axis-permuted sources) on buffers "
                "filled with non-zero bytes: whole-buffer image after the call vs the Lean model, and the oracle "
                "(prefix + exactly the requested bytes + suffix; extracted copies independent, typed views aliasing, measured by "
                "follow-up writes in both directions)",
        "samples": r["samples"],
        "tags": r["tags"],
        "correspondence": {"prim": {"lines": r["lines"], "mismatches": len(r["mismatches"])}},
        "assumptions": ["requests are inside the capacity (outside it NumPy raises and a bytearray silently changes length: not in the "
                        "property's quantifier)",
                        "float conversion (astype) is NumPy's: compared with NumPy itself by the oracle, not modelled; integer "
                        "conversion is modelled (two's complement) and tied"],
        "partial": ["copy-vs-view is a classification in the model; that each primitive is classified as the code behaves is measured "
                    "by the harness with follow-up writes (object aliasing is a Python-runtime fact)"],
    }


def search(mismatches, seed):
    out = []
    for s in range(2):
        out.extend(_mine(bufprim.run_all("quick" if s == 0 else "thorough", seed + 1300 + s)["failures"]))
        if out:
            break
    return out


def replay(rep):
    r = bufprim.run_all(rep.get("tier", "quick"), rep.get("seed", 0))
    fails = _mine(r["failures"])
    for x in fails[:5]:
        print("oracle:", x.key, x.what[:300])
    if fails:
        print(f"VIOLATION property={PROP} replay=(replayed)")
        return 1
    print("replay: property holds on this input")
    return 0
