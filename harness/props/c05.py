"""C05 — layout family; see harness/layout.py and harness/props/_layout.py"""
from ._layout import make

PROP = "C05"
run, search, replay = make(PROP, ('C05:',),
                           'Oracle C05: a decoder written in Python only from Architecture.md / types.rst is run on the raw bytes and must recover the value; every compound or dynamic part on an 8-byte slot relative to the object.',
                           [],
                           ['the reference encoding itself is a theorem (C05_ref_slot_encoding, decoded by C08_alias / C08_null) tied through the rg component; where reference slots sit inside dynamic structs and arrays is decoded by the Python oracle and the executable model only'], rg=True)
