"""C05 — layout family; see harness/layout.py and harness/props/_layout.py"""
from ._layout import make

PROP = "C05"
run, search, replay = make(PROP, ('C05:',),
                           'Oracle C05: a decoder written in Python only from Architecture.md / types.rst is run on the raw bytes and must recover the value; every compound or dynamic part on an 8-byte slot relative to the object.',
                           [],
                           ['reference encodings (relative offset, null value, member index) are decoded by the Python oracle and the executable model only'])
