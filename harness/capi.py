"""C-generator component (C02, C07, C15): random types -> (a) exact text of the real `_gen_c_api()` against the
Lean port that prints the statement IR the theorems are about; (b) `ceval`: the real source compiled through
ctx.add_kernels and called through cffi on real objects at non-zero offsets, against the IR semantics (`CFun.eval`)
run on the same buffer image; (c) the model-independent oracle: compiled accessor vs Python accessor."""
import collections
import itertools
import random

import numpy as np

from . import common, types as T


# minimised past failures; compiled first on every run
CORPUS = [
    # O-14: nested array of dynamically sized items: `offset=` dropped the base offset of the array inside its parent
    ("struct", "SD", [("x", ("scalar", 0)), ("a", ("array", ("string",), [None], [0]))]),
    # static zero-length dimension next to a dynamic one: `if dim_len:` in gen_method_len
    ("struct", "SZ", [("x", ("scalar", 2)), ("z", ("array", ("scalar", 4), [0, None], [0, 1]))]),
    # a struct with two dynamic fields stored in-line as the first dynamic field of an outer struct, after static fields:
    # a constant offset is pending when the inner reference field is reached
    ("struct", "Outer", [("a", ("scalar", 2)), ("b", ("struct", "Inner", [("n", ("scalar", 2)), ("x", ("array", ("scalar", 2), [None], [0])),
                                                                          ("y", ("array", ("scalar", 2), [None], [0]))]))]),
    # leading dynamic dimension with the static axes in a non-C order, F order with a dynamic dimension, and the same nested in a
    # struct: the strides must come from the header / the declared order, not from the C-order default
    ("array", ("scalar", 2), [None, 3, 4], [0, 2, 1]),
    ("array", ("scalar", 0), [None, 3], [1, 0]),
    ("struct", "SP", [("k", ("scalar", 6)), ("m", ("array", ("scalar", 6), [None, 3, 2], [2, 0, 1]))]),
    # dynamically sized ITEMS in a dynamic-shape array with a non-C axis order: the stride words of the header (read only by the
    # generated C, never by the Python view) address the offset table, which is kept in memory order
    ("array", ("string",), [None, 4], [1, 0]),
    ("array", ("array", ("scalar", 2), [None], [0]), [2, None, 2], [2, 0, 1]),
    # two DIFFERENT array types under one class name (the name does not encode the axis order), generated and compiled one after
    # the other in this process: each must get the accessors of ITS layout
    ("array", ("scalar", 0), [3, 4], [0, 1]),
    ("array", ("scalar", 0), [3, 4], [1, 0]),
    ("array", ("scalar", 4), [None, 2, 3], [0, 1, 2]),
    ("array", ("scalar", 4), [None, 2, 3], [2, 0, 1]),
    # capacity strings (values forced, see FORCED) in front of arrays of 8-byte / 4-byte items, also inside a nested dynamic struct
    ("struct", "RecCap", [("count", ("scalar", 2)), ("tag", ("string",)), ("x", ("array", ("scalar", 2), [None], [0])), ("y", ("array", ("scalar", 0), [None], [0]))]),
    ("struct", "RecCap2", [("t1", ("string",)), ("t2", ("string",)), ("m", ("array", ("scalar", 4), [None, 2], [1, 0])),
                           ("s", ("struct", "RecCapIn", [("q", ("string",)), ("w", ("array", ("scalar", 2), [None], [0]))]))]),
    # three array levels on one path: the index arguments are numbered across the levels
    ("struct", "Grid", [("cells", ("array", ("struct", "Cell", [("corners", ("array", ("struct", "Corner", [("coords", ("array", ("scalar", 0), [3], [0]))]), [2, 2], [0, 1]))]), [None], [0]))]),
]


def gen_types(r, n, depth_choices=(1, 2, 2, 3), refs=True):
    g = T.G(r, refs=refs)
    out = []
    while len(out) < n:
        t = g.ty(r.choice(depth_choices), compound_only=True)
        if t[0] == "ref" or T.names_clash(t):
            continue
        out.append(t)
    return out


def impl_source(cls):
    # the other generator entry points, called with their DEFAULT arguments as a user or a tool would (declarations for cffi, kernel
    # descriptions), come first: they are pure - the accessor text generated afterwards is what it is without them
    for other in ("_gen_c_decl", "_gen_kernels"):
        try:
            getattr(cls, other)()
        except Exception:
            pass
    src = cls._gen_c_api()
    return src.source if hasattr(src, "source") else src


# ------------------------------------------------------------------ independent path enumeration (from the descriptor)

def paths(t, base=()):
    """yield (steps, leaf descriptor); steps: ('f', name) | ('i', nd) | ('r',)"""
    k = t[0]
    yield base, t
    if k == "struct":
        for n, ft in t[2]:
            yield from _sub(ft, base + (("f", n),))
    elif k == "array":
        yield from _sub(t[1], base + (("i", len(t[2])),))


def _sub(ft, base):
    if ft[0] == "ref":
        yield from paths(ft[1], base + (("r",),))
    else:
        yield from paths(ft, base)


def fun_names(cname, steps, leaf):
    """{kind: C function name} generated for a path (naming rule of gen_fun_kernel)"""
    fields = [s[1] for s in steps if s[0] == "f"]
    nidx = sum(s[1] for s in steps if s[0] == "i")
    tail = ("_" + "_".join(fields)) if fields else ""
    n = str(nidx) if nidx else ""
    k = leaf[0]
    out = {}
    if k == "scalar":
        out["get"] = f"{cname}_get{tail}"
        out["set"] = f"{cname}_set{tail}"
    if k in ("scalar", "string", "struct", "array", "uref"):
        out["getp"] = f"{cname}_getp{n}{tail}"
    if k == "array":
        out["len"] = f"{cname}_len{n}{tail}"
    if k == "uref":
        out["typeid"] = f"{cname}_typeid{tail}"
        out["member"] = f"{cname}_member{tail}"
    return out


def index_sets(obj, t, steps, r, limit=12):
    """in-range index tuples (flattened) for the 'i' steps of a path on this object; None if a null ref is on the way"""
    res = [((), obj, t)]
    for s in steps:
        nxt = []
        for idx, cur, ct in res:
            if s[0] == "f":
                ft = dict(ct[2])[s[1]]
                if ft[0] == "ref":
                    nxt.append((idx, (cur, s[1], "reffield"), ft))
                elif ft[0] in ("scalar", "string", "uref"):
                    # the accessor addresses the SLOT (for a union reference: the 16-byte slot, not the referent)
                    nxt.append((idx, (cur, s[1], "leaf"), ft))
                else:
                    nxt.append((idx, getattr(cur, s[1]), ft))
            elif s[0] == "r":
                # cur is a (container, key, 'reffield'|'refitem') marker -> resolve
                c, key, kind = cur
                tgt = getattr(c, key) if kind == "reffield" else c[key]
                if tgt is None:
                    continue
                nxt.append((idx, tgt, ct[1]))
            else:
                shape = [int(x) for x in cur._shape]
                all_idx = list(np.ndindex(*shape))
                if len(all_idx) > limit:
                    all_idx = r.sample(all_idx, limit)
                it = ct[1]
                for ii in all_idx:
                    key = ii if len(ii) > 1 else ii[0]
                    if it[0] == "ref":
                        nxt.append((idx + ii, (cur, key, "refitem"), it))
                    elif it[0] in ("scalar", "string"):
                        nxt.append((idx + ii, (cur, key, "leafitem"), it))
                    elif it[0] == "uref":
                        nxt.append((idx + ii, (cur, key, "urefitem"), it))
                    else:
                        nxt.append((idx + ii, cur[key], it))
        res = nxt
        if len(res) > 4 * limit:
            res = r.sample(res, 4 * limit)
    return res


def py_view(cur, leaf, cache):
    """what the Python accessors report for the path target: dict with addr (buffer offset), value bytes, len, typeid, member"""
    xo = common.import_xobjects()
    out = {}
    k = leaf[0]
    if isinstance(cur, tuple):
        c, key, kind = cur
        if kind in ("leaf", "reffield"):
            fld = getattr(type(c), key)
            _, off = fld.get_offset(c)
            val = getattr(c, key)
        else:
            off = c._get_offset(key if isinstance(key, tuple) else (key,)) if hasattr(c, "_get_offset") else None
            val = c[key]
            if hasattr(c, "_offsets"):
                pass
        out["addr"] = int(off)
        if k == "scalar":
            dt = T.scalars()[leaf[1]]._dtype
            out["bytes"] = np.array([val], dtype=dt).tobytes()
        if k == "uref":
            out["typeid"] = -1 if val is None else [T.build(m, cache).__name__ for m in leaf[2]].index(type(val).__name__)
            out["member"] = None if val is None else int(val._offset)
        return out
    # a compound python object
    out["addr"] = int(cur._offset)
    if k == "array":
        out["len"] = int(np.prod([int(x) for x in cur._shape])) if len(cur._shape) else 0
    return out


def run_all(tier, seed, want=("text", "ceval")):
    xo = common.import_xobjects()
    import cffi

    ffi = cffi.FFI()
    r = random.Random(seed * 7919 + 11)
    n_text = {"quick": 120, "thorough": 1500}[tier]
    n_comp = {"quick": 6, "thorough": 120}[tier]
    fails, mism, tags, samples, hist = [], [], collections.Counter(), [], {}
    distinct = set()
    lines, expect, ctxs = [], [], []
    types = CORPUS + gen_types(r, n_text)
    if "text" in want:
        for t in types:
            cache = {}
            cls = T.build(t, cache)
            T.kind_hist(t, hist)
            s = T.sexp(t)
            lines.append("gen " + s)
            expect.append(impl_source(cls).replace("\n", "\\n"))
            ctxs.append({"op": "gen", "type": s})
            distinct.add(s)
            tags["text.types"] += 1
    # ---- ceval
    evals = 0
    if "ceval" in want:
        ctypes = CORPUS + gen_types(r, n_comp, depth_choices=(1, 2, 2, 3))
        with common.scratch_cwd():
            for t in ctypes:
                evals += ceval_type(t, r, ffi, lines, expect, ctxs, fails, tags, samples)
            evals += ceval_type(SHARED, r, ffi, lines, expect, ctxs, fails, tags, samples, given=object_after_update_of_its_copy)
    got = common.run_driver("capi", lines, timeout=1800)
    if len(got) != len(lines):
        raise common.Infra(f"capi driver: {len(lines)} in {len(got)} out")
    for l, e, g, c in zip(lines, expect, got, ctxs):
        if g.startswith("PROOF-MODEL-DIFFERS"):
            mism.append(common.Failure("tie", "capi-tie:proof-model", f"{c.get('type', '')[:300]}: {g}", c))
            continue
        if e is None:
            continue
        if e != g:
            what = first_diff(e, g) if c["op"] == "gen" else f"implementation `{e}` model `{g}`"
            mism.append(common.Failure("tie", f"capi-tie:{c['op']}", f"{c.get('fn', '')} {c['type'][:300]}: {what}", c))
    return {"failures": fails, "mismatches": mism, "lines": len(lines), "distinct": len(distinct) + evals,
            "tags": dict(tags), "hist": hist, "samples": samples[:6] + [l[:200] for l in lines[:3]], "evals": evals}


def first_diff(e, g):
    a, b = e.split("\\n"), g.split("\\n")
    for i, (x, y) in enumerate(zip(a, b)):
        if x != y:
            return f"line {i}: implementation `{x}` model `{y}`"
    return f"line counts {len(a)} vs {len(b)}"


def make_object(t, r, cache, forms=("py", "py", "nd")):
    """a real object of type t with a generated value, at a non-zero offset of a buffer with prior history"""
    xo = common.import_xobjects()
    cls = T.build(t, cache)
    for _ in range(20):
        d, e = T.val(t, r)
        form = r.choice(forms)
        if t[0] == "struct" and t[1] in FORCED:
            d, e, form = FORCED[t[1]][0], FORCED[t[1]][1], "py"
        if form == "py" and T.has_zero_nd(t, d):
            continue
        arg = T.to_py(t, d, cache, form)
        ctx = xo.ContextCpu()
        buf = ctx.new_buffer(r.choice([64, 256, 4096]))
        junk = buf.allocate(r.choice([8, 24, 40]))
        buf.update_from_buffer(junk, bytes([0xA5]) * 8)
        try:
            obj = cls(arg, _buffer=buf)
        except Exception:
            continue
        return obj, d, e, form
    return None, None, None, None


# corpus types that need a particular VALUE: strings created from a capacity that is not a multiple of 8 in front of further dynamic
# fields (multi-byte leaves behind them must still start on the slot grid relative to the object)
FORCED = {
    "RecCap": ({"count": 1, "tag": ("CAP", 5), "x": ("ARR", [3], [1, 2, 3]), "y": ("ARR", [2], [1.0, 2.0])},
               {"count": 1, "tag": "", "x": ("ARR", [3], [1, 2, 3]), "y": ("ARR", [2], [1.0, 2.0])}),
    "RecCap2": ({"t1": ("CAP", 3), "t2": ("CAP", 10), "m": ("ARR", [2, 2], [[1, 2], [3, 4]]), "s": {"q": ("CAP", 1), "w": ("ARR", [1], [7])}},
                {"t1": "", "t2": "", "m": ("ARR", [2, 2], [[1, 2], [3, 4]]), "s": {"q": "", "w": ("ARR", [1], [7])}}),
}
SHARED = ("struct", "PairSO", [("a", ("array", ("scalar", 2), [None], [0])), ("b", ("array", ("scalar", 2), [None], [0]))])


def object_after_update_of_its_copy(t, r, cache):
    """the handle of an object AFTER a struct copy-constructed from it was updated as a whole with a value of the same size that
    divides the room differently: the handle's cached field offsets must still be its own"""
    xo = common.import_xobjects()
    cls = T.build(t, cache)
    buf = xo.ContextCpu().new_buffer(r.choice([64, 4096]))
    buf.allocate(r.choice([8, 24]))
    d = {"a": ("ARR", [1], [1]), "b": ("ARR", [3], [10, 20, 30])}
    d3 = {"a": ("ARR", [3], [1, 2, 3]), "b": ("ARR", [1], [10])}
    obj = cls(T.to_py(t, d, cache, "py"), _buffer=buf)
    cp = cls(obj, _buffer=r.choice([buf, xo.ContextCpu().new_buffer(64)]))
    third = cls(T.to_py(t, d3, cache, "py"), _buffer=buf)
    cp._update(third)
    return obj, d, d, "py+copy-updated"


def ceval_type(t, r, ffi, lines, expect, ctxs, fails, tags, samples, given=None):
    xo = common.import_xobjects()
    cache = {}
    cls = T.build(t, cache)
    s = T.sexp(t)
    obj, d, e, form = (given or make_object)(t, r, cache)
    if obj is None:
        tags["ceval.noobj"] += 1
        return 0
    ctx = {"op": "ev", "type": s, "value": repr(d)[:2000], "form": form}
    try:
        kctx = xo.ContextCpu()
        kctx.add_kernels(kernels=cls._gen_kernels())
    except Exception as ex:
        fails.append(common.Failure("oracle", f"C02:build-fails:{type(ex).__name__}", f"kernels of {s[:200]} do not build: {str(ex)[:300]}", ctx))
        return 0
    tags["ceval.types"] += 1
    buf = obj._buffer
    base = int(ffi.cast("size_t", ffi.from_buffer(buf.buffer)))
    image = bytes(buf.to_bytearray(0, buf.capacity))
    lines.append("type " + s)
    expect.append(None)
    ctxs.append(ctx)
    lines.append("mem " + (image.hex() or "-"))
    expect.append(f"ok {len(image)}")
    ctxs.append(ctx)
    n = 0
    recheck = []
    cname = cls.__name__
    for steps, leaf in paths(t):
        names = fun_names(cname, steps, leaf)
        if not names:
            continue
        for idx, cur, _ct in index_sets(obj, t, steps, r):
            try:
                pv = py_view(cur, leaf, cache)
            except Exception as ex:
                fails.append(common.Failure("oracle", f"C02:python-accessor:{type(ex).__name__}", f"{s[:200]} path {steps} idx {idx}: {ex}", ctx))
                continue
            kw = {f"i{j}": int(v) for j, v in enumerate(idx)}
            for kind, fn in names.items():
                if kind == "set":
                    continue
                c2 = dict(ctx, fn=fn, idx=list(idx), obj_offset=int(obj._offset))
                try:
                    res = getattr(kctx.kernels, fn)(obj=obj, **kw)
                except Exception as ex:
                    fails.append(common.Failure("oracle", f"C02:call-fails:{kind}", f"{fn}{kw} on {s[:200]}: {type(ex).__name__} {str(ex)[:200]}", c2))
                    continue
                n += 1
                tags["ceval." + kind] += 1
                line = f"ev {fn} {int(obj._offset)} " + " ".join(str(int(v)) for v in idx)
                if kind in ("getp", "member"):
                    caddr = int(ffi.cast("size_t", res)) - base
                    caddr = (caddr + 2**63) % 2**64 - 2**63  # pointer difference as a signed 64-bit value (null member)
                    lines.append(line)
                    expect.append(f"addr {caddr - int(obj._offset)} 0")
                    ctxs.append(c2)
                    want = pv["addr"] if kind == "getp" else pv.get("member")
                    if kind == "getp" and len(recheck) < 12:
                        recheck.append((fn, kw, caddr, c2))
                    if want is not None and caddr != want:
                        fails.append(common.Failure("oracle", f"C02:{kind}-address", f"{fn}{kw} on {s[:200]} (value {repr(d)[:200]}): C returns buffer offset {caddr}, the Python accessor reports {want}", c2))
                elif kind == "get":
                    dt = T.scalars()[leaf[1]]._dtype
                    try:
                        cb = np.array([res], dtype=dt).tobytes()
                    except (OverflowError, ValueError, TypeError):
                        # the C getter returned a number the element's type cannot hold (a getter declared with another C type)
                        cb = b""
                    # the model gives the address; the value is whatever the image holds there
                    lines.append(line)
                    expect.append(None)
                    ctxs.append(c2)
                    if cb != pv["bytes"]:
                        fails.append(common.Failure("oracle", "C02:get-value", f"{fn}{kw} on {s[:200]}: C returns {res!r}, Python reads {np.frombuffer(pv['bytes'], dtype=dt)[0]!r}", c2))
                    if image[pv["addr"]: pv["addr"] + dt.itemsize] != cb:
                        fails.append(common.Failure("oracle", "C02:get-address", f"{fn}{kw} on {s[:200]}: C value differs from the bytes at the Python accessor's offset {pv['addr']}", c2))
                    c2["want_addr"] = pv["addr"]
                    c2["width"] = dt.itemsize
                    expect[-1] = f"addr {pv['addr'] - int(obj._offset)} {dt.itemsize}"
                elif kind in ("len", "typeid"):
                    lines.append(line)
                    expect.append(f"val {int(res)}")
                    ctxs.append(c2)
                    want = pv.get(kind)
                    if want is not None and int(res) != want:
                        fails.append(common.Failure("oracle", f"C02:{kind}", f"{fn}{kw} on {s[:200]} (value {repr(d)[:200]}): C returns {int(res)}, Python reports {want}", c2))
    # ---- the buffer grows (storage is relocated): the same accessors must address the same object bytes in the NEW storage
    if recheck:
        before = bytes(buf.to_bytearray(0, buf.capacity))
        oldcap = buf.capacity
        buf.allocate(buf.capacity + 16)
        base2 = int(ffi.cast("size_t", ffi.from_buffer(buf.buffer)))
        for fn, kw, rel, c2 in recheck:
            try:
                res = getattr(kctx.kernels, fn)(obj=obj, **kw)
            except Exception as ex:
                fails.append(common.Failure("oracle", "C02:call-fails:after-growth", f"{fn}{kw} on {s[:200]} after buffer growth: {type(ex).__name__} {str(ex)[:200]}", c2))
                continue
            caddr2 = int(ffi.cast("size_t", res)) - base2
            tags["ceval.getp.after-growth"] += 1
            n += 1
            if caddr2 != rel:
                fails.append(common.Failure("oracle", "C02:getp-address:after-growth", f"{fn}{kw} on {s[:200]}: after the buffer grew from {oldcap} to {buf.capacity} bytes the accessor returns an address {caddr2} bytes from the current storage, the Python accessor reports {rel} (stale storage?)", c2))
                break
    if n and len(samples) < 6:
        samples.append(f"ceval {s[:160]} value {repr(d)[:80]}: {n} accessor calls")
    return n


# ------------------------------------------------------------------------------------------- C07

def new_scalar(leaf, r):
    dt = T.scalars()[leaf[1]]._dtype
    if dt.kind == "f":
        return r.choice([0.5, -3.25, 7.0, 1e-3, 123456.0])
    lo, hi = T.INTS[leaf[1]]
    return r.choice([lo, hi, 1, 2, r.randint(lo, hi)])


def c07_override_scenario(fails, tags):
    """kernel descriptions prepared from one class, built with `extra_classes=[variant]`, the variant having the same name and
    another layout: the class given LAST overrides (documented), so the compiled setters address the variant's elements"""
    xo = common.import_xobjects()
    import numpy as np
    uid = next(_ov_uid)
    name = f"Cell{uid}"
    base = type(xo.Struct)(name, (xo.Struct,), {"count": xo.Int64, "w": xo.Float64[:]})
    variant = type(xo.Struct)(name, (xo.Struct,), {"flag": xo.Int64, "count": xo.Int64, "w": xo.Float64[:]})
    ctx = {"op": "override", "type": f"{name}: descriptions from (count, w), extra class (flag, count, w)"}
    try:
        kctx = xo.ContextCpu()
        kctx.add_kernels(kernels=base._gen_kernels(), extra_classes=[variant])
        cell = variant(flag=77, count=5, w=[1.0, 2.0, 3.0], _context=kctx)
    except Exception as ex:
        fails.append(common.Failure("oracle", f"C07:build-fails:{type(ex).__name__}", f"override build: {str(ex)[:300]}", ctx))
        return
    img = lambda: bytes(cell._buffer.to_bytearray(0, cell._buffer.capacity))
    steps = [(f"{name}_set_count", {}, cell._get_offset("count"), np.int64(-12))] + \
            [(f"{name}_set_w", {"i0": i}, cell.w._get_offset(i), np.float64(10.5 + i)) for i in range(3)]
    for fn, kw, pos, val in steps:
        want = bytearray(img())
        want[pos:pos + 8] = val.tobytes()
        try:
            getattr(kctx.kernels, fn)(obj=cell, value=val, **kw)
        except Exception as ex:
            fails.append(common.Failure("oracle", "C07:call-fails", f"{fn}: {type(ex).__name__} {str(ex)[:200]}", ctx))
            return
        tags["c07.override-setter"] += 1
        if img() != bytes(want):
            fails.append(common.Failure("oracle", "C07:setter-not-exactly-the-element",
                                        f"{fn}{kw} on an object of the OVERRIDING class (given last, in extra_classes) did not change exactly "
                                        f"that element: flag={int(cell.flag)} count={int(cell.count)} w={[float(x) for x in cell.w.to_nparray()]}", ctx))
            return


_ov_uid = itertools.count(1)


def run_c07(tier, seed):
    """setters through cffi (exactly the element changes, to exactly the value), the model's access lists (in bounds,
    aligned relative to the object), and the stand-alone sanitizer build of the emitted source"""
    xo = common.import_xobjects()
    import cffi

    ffi = cffi.FFI()
    r = random.Random(seed * 104729 + 7)
    n_comp = {"quick": 5, "thorough": 80}[tier]
    n_san = {"quick": 2, "thorough": 40}[tier]
    fails, mism, tags, samples = [], [], collections.Counter(), []
    lines, expect, ctxs = [], [], []
    evals = 0
    ctypes = CORPUS + gen_types(r, n_comp)
    with common.scratch_cwd() as tmp:
        c07_override_scenario(fails, tags)
        for k, t in enumerate(ctypes):
            cache = {}
            cls = T.build(t, cache)
            s = T.sexp(t)
            obj, d, e, form = make_object(t, r, cache)
            if obj is None:
                continue
            ctx = {"op": "acc", "type": s, "value": repr(d)[:2000]}
            try:
                kctx = xo.ContextCpu()
                kctx.add_kernels(kernels=cls._gen_kernels())
            except Exception as ex:
                fails.append(common.Failure("oracle", f"C07:build-fails:{type(ex).__name__}", f"kernels of {s[:200]} do not build: {str(ex)[:300]}", ctx))
                continue
            tags["c07.types"] += 1
            buf = obj._buffer
            cap = buf.capacity
            has_refs = "(ref " in s or "(uref " in s
            lines.append("type " + s); expect.append(None); ctxs.append(ctx)
            image = bytes(buf.to_bytearray(0, cap))
            lines.append("mem " + image.hex()); expect.append(f"ok {cap}"); ctxs.append(ctx)
            calls = []
            setter_recs = []
            cname = cls.__name__
            o0, size = int(obj._offset), int(obj._size)
            for steps, leaf in paths(t):
                names = fun_names(cname, steps, leaf)
                for idx, cur, _ct in index_sets(obj, t, steps, r, limit=6):
                    kw = {f"i{j}": int(v) for j, v in enumerate(idx)}
                    for kind, fn in names.items():
                        c2 = dict(ctx, fn=fn, idx=list(idx), obj_offset=o0, obj_size=size, has_refs=has_refs, cap=cap)
                        if kind != "set":
                            lines.append(f"acc {fn} {o0} " + " ".join(str(int(v)) for v in idx))
                            expect.append(("acc", c2)); ctxs.append(c2)
                            if kind == "member":
                                try:
                                    if py_view(cur, leaf, cache).get("member") is None:
                                        continue        # the member of a NULL union reference is not an address: not called under the sanitizers
                                except Exception:
                                    continue
                            calls.append((fn, kind, idx, leaf))
                            continue
                        # --- setter: whole-buffer diff and python re-read
                        pv = py_view(cur, leaf, cache)
                        dt = T.scalars()[leaf[1]]._dtype
                        v = new_scalar(leaf, r)
                        vb = np.array([v], dtype=dt).tobytes()
                        before = bytes(buf.to_bytearray(0, cap))
                        try:
                            getattr(kctx.kernels, fn)(obj=obj, value=v, **kw)
                        except Exception as ex:
                            fails.append(common.Failure("oracle", "C07:set-call-fails", f"{fn}{kw}(value={v}) on {s[:200]}: {type(ex).__name__} {str(ex)[:200]}", c2))
                            continue
                        evals += 1
                        tags["c07.set"] += 1
                        setter_recs.append((fn, kw, cur, leaf))
                        after = bytes(buf.to_bytearray(0, cap))
                        a = pv["addr"]
                        want = before[:a] + vb + before[a + len(vb):]
                        if after != want:
                            ch = [i for i in range(cap) if before[i] != after[i]]
                            fails.append(common.Failure("oracle", "C07:set-wrong-bytes", f"{fn}{kw}(value={v}) on {s[:200]}: bytes changed at {ch[:12]}, the element is at [{a},{a + len(vb)}) and should hold {vb.hex()}", c2))
                        # python re-read of the element
                        try:
                            pv2 = py_view(cur, leaf, cache)
                            if pv2["bytes"] != vb:
                                fails.append(common.Failure("oracle", "C07:set-not-seen", f"{fn}{kw}(value={v}) on {s[:200]}: Python reads {pv2['bytes'].hex()} afterwards", c2))
                        except Exception as ex:
                            fails.append(common.Failure("oracle", "C07:reread-fails", f"{fn}{kw}: {ex}", c2))
                        calls.append((fn, kind, idx, leaf))
            # ---- after the buffer has grown (storage relocated) a setter must still hit the element in the CURRENT storage
            if setter_recs:
                buf.allocate(buf.capacity + 16)
                cap2 = buf.capacity
                for fn, kw, cur, leaf in setter_recs[:3]:
                    dt = T.scalars()[leaf[1]]._dtype
                    try:
                        pv = py_view(cur, leaf, cache)
                        v = new_scalar(leaf, r)
                        vb = np.array([v], dtype=dt).tobytes()
                        before = bytes(buf.to_bytearray(0, cap2))
                        # where would the accessor go?  check the address before letting it write
                        gp = fn.replace("_set", "_getp", 1)
                        nidx = len(kw)
                        gp = gp if nidx == 0 else gp.replace("_getp", f"_getp{nidx}", 1)
                        if hasattr(kctx.kernels, "__getattr__"):
                            try:
                                pa = int(ffi.cast("size_t", getattr(kctx.kernels, gp)(obj=obj, **kw))) - int(ffi.cast("size_t", ffi.from_buffer(buf.buffer)))
                            except Exception:
                                pa = pv["addr"]
                            if pa != pv["addr"]:
                                fails.append(common.Failure("oracle", "C07:set-wrong-bytes:after-growth", f"{fn}{kw} on {s[:200]} after the buffer grew to {cap2} bytes: the accessor addresses {pa} bytes from the current storage, the element is at {pv['addr']} (stale storage?)", ctx))
                                break
                        getattr(kctx.kernels, fn)(obj=obj, value=v, **kw)
                        after = bytes(buf.to_bytearray(0, cap2))
                    except Exception as ex:
                        fails.append(common.Failure("oracle", "C07:set-call-fails:after-growth", f"{fn}{kw}: {type(ex).__name__} {str(ex)[:200]}", ctx))
                        continue
                    evals += 1
                    tags["c07.set.after-growth"] += 1
                    a = pv["addr"]
                    want = before[:a] + vb + before[a + len(vb):]
                    if after != want:
                        ch = [i for i in range(cap2) if before[i] != after[i]]
                        fails.append(common.Failure("oracle", "C07:set-wrong-bytes:after-growth", f"{fn}{kw}(value={v}) on {s[:200]} after the buffer grew to {cap2} bytes: bytes changed at {ch[:12]} of the current storage, the element is at [{a},{a + len(vb)}) and should hold {vb.hex()} (stale storage written?)", ctx))
            # the image changed by the setters: resend before sanitizer stage; accesses were computed on the first image
            if n_san > 0 and calls:
                n_san -= 1
                evals += sanitizer_stage(kctx, cls, obj, calls, tmp, k, fails, tags, ctx)
    got = common.run_driver("capi", lines, timeout=1800)
    if len(got) != len(lines):
        raise common.Infra(f"capi driver: {len(lines)} in {len(got)} out")
    for l, e, g, c in zip(lines, expect, got, ctxs):
        if g.startswith("PROOF-MODEL-DIFFERS"):
            mism.append(common.Failure("tie", "capi-tie:proof-model", f"{c.get('type', '')[:300]}: {g}", c))
            continue
        if e is None:
            continue
        if isinstance(e, tuple):
            evals += 1
            tags["c07.acc"] += 1
            if not g.startswith("acc"):
                mism.append(common.Failure("tie", "capi-tie:acc", f"{l[:200]} -> {g}", c))
                continue
            for tok in g.split()[1:]:
                a, w = map(int, tok.split(":"))
                lo, hi = (0, c["cap"]) if c["has_refs"] else (c["obj_offset"], c["obj_offset"] + c["obj_size"])
                if a < lo or a + w > hi:
                    fails.append(common.Failure("oracle", "C07:access-out-of-bounds", f"{c['fn']} idx {c['idx']} on {c['type'][:200]}: {w}-byte access at buffer offset {a}, allowed [{lo},{hi})", c))
                elif w and (a - c["obj_offset"]) % w:
                    fails.append(common.Failure("oracle", "C07:access-misaligned", f"{c['fn']} idx {c['idx']} on {c['type'][:200]}: {w}-byte access at {a - c['obj_offset']} from the object start", c))
        elif e != g:
            mism.append(common.Failure("tie", "capi-tie:" + c["op"], f"{l[:100]}: implementation `{e}` model `{g}`", c))
    # the IR the C07 theorems are about must be the IR of the real generator: exact text of _gen_c_api() for these and random types
    tx = run_all(tier, seed, want=("text",))
    mism.extend(tx["mismatches"])
    tags.update({"text.types": tx["tags"].get("text.types", 0)})
    return {"failures": fails, "mismatches": mism, "lines": len(lines) + tx["lines"], "distinct": evals, "tags": dict(tags),
            "samples": samples + [l[:200] for l in lines if l.startswith("acc")][:4], "evals": evals}


SAN_MAIN = r"""
#include <stdint.h>
#include <stdio.h>
#include <stdlib.h>
#include <string.h>
%(source)s
static const unsigned char IMG[] = {%(bytes)s};
volatile double sinkd; volatile long long sinki;
int main(void){
  size_t cap = %(cap)d;
  char *blk = NULL;
  /* the buffer image, 64-aligned, its last byte flush against the end of the heap block */
  size_t pad = (64 - cap %% 64) %% 64;
  if (posix_memalign((void**)&blk, 64, cap + pad ? cap + pad : 64)) return 3;
  char *base = blk + pad;
  /* move so that the image END is the block end; the start stays 64-aligned relative to base because pad+cap is a multiple of 64 */
  memcpy(base, IMG, cap);
  %(ctype)s obj = (%(ctype)s)(base + %(off)d);
%(calls)s
  free(blk);
  return 0;
}
"""


def sanitizer_stage(kctx, cls, obj, calls, tmp, k, fails, tags, ctx):
    """compile the emitted (cpu-specialised) source stand-alone with ASan+UBSan and run every accessor call"""
    import os
    import subprocess

    any_kernel = next(iter(kctx.kernels.values())) if hasattr(kctx.kernels, "values") else None
    src = None
    for key in list(kctx._kernels.keys()) if hasattr(kctx, "_kernels") else []:
        src = kctx._kernels[key].specialized_source
        break
    if src is None:
        return 0
    buf = obj._buffer
    cap = buf.capacity
    img = bytes(buf.to_bytearray(0, cap))
    body = []
    for fn, kind, idx, leaf in calls:
        args = ", ".join(["obj"] + [str(int(v)) for v in idx])
        if kind == "get":
            body.append(f"  sinkd = (double){fn}({args});")
        elif kind == "set":
            g = fn.replace("_set", "_get", 1)
            body.append(f"  {fn}({args}, {g}({args}));")
        elif kind in ("getp", "member"):
            body.append(f"  sinki = (long long)((char*){fn}({args}) - (char*)obj);")
        else:
            body.append(f"  sinki = (long long){fn}({args});")
    code = SAN_MAIN % {"source": src, "bytes": ",".join(map(str, img)) or "0", "cap": cap, "ctype": cls.__name__,
                       "off": int(obj._offset), "calls": "\n".join(body)}
    cfile = os.path.join(tmp, f"san{k}.c")
    exe = os.path.join(tmp, f"san{k}")
    open(cfile, "w").write(code)
    p = subprocess.run(["clang", "-g", "-O1", "-fsanitize=address,undefined", "-fno-sanitize-recover=all",
                        "-Wno-unused-function", "-Wno-everything", cfile, "-o", exe, "-lm"], capture_output=True, text=True)
    if p.returncode != 0:
        fails.append(common.Failure("oracle", "C07:sanitizer-build-fails", f"stand-alone build of the emitted source of {ctx['type'][:160]} fails: {p.stderr[-400:]}", ctx))
        return 0
    env = dict(os.environ, ASAN_OPTIONS="detect_leaks=0:abort_on_error=0", UBSAN_OPTIONS="print_stacktrace=0")
    q = subprocess.run([exe], capture_output=True, text=True, env=env, timeout=120, preexec_fn=common._unlimit_memory)
    tags["c07.sanitized-types"] += 1
    tags["c07.sanitized-calls"] += len(calls)
    if q.returncode != 0:
        msg = [l for l in (q.stderr or "").splitlines() if "ERROR" in l or "runtime error" in l][:3]
        fails.append(common.Failure("oracle", "C07:sanitizer", f"{ctx['type'][:200]} (value {ctx['value'][:120]}): sanitizer run exits {q.returncode}: {' | '.join(msg)[:400]}", ctx))
    return len(calls)
