"""Hybrid-class component (C18, and the carriers of C19 / C20): generated HybridClass universes (numeric fields, nested hybrids,
references to hybrids, renamed fields) and operation histories (construct with plain / dressed / None values, attribute get and
set, copy, move, pure-Python attributes) on several buffers of two contexts - every answer compared with the Lean model
(`hyb` component) - and the model-independent oracle: after EVERY operation, for every live handle and every field, the
attribute must be what the underlying buffer data says (`Mirror`)."""
import collections
import itertools
import random
import struct

import numpy as np

from . import common

_uid = itertools.count()


class Universe:
    """classes 0=Leaf, 1=Mid, 2=Top with random nested/ref choices and renames; real HybridClass classes + the model's spec"""

    def __init__(self, r, module_ns=None, force=None):
        xo = common.import_xobjects()
        self.r = r
        uid = next(_uid)
        self.spec = []          # per class: (fields [(xo name, kind, cls)], rename {xo: py})
        self.classes = []
        self.defaults = {}      # (class index, xo name) -> declared default of a numeric field (0 when none is declared)

        def num(ci, name):
            d = r.choice([None, None, 5, -3])
            self.defaults[(ci, name)] = 0 if d is None else d
            return xo.Int64 if d is None else xo.Field(xo.Int64, default=d)

        leaf_fields = [("a", "n", None), ("v", "n", None)]
        # fields of dynamic size may declare a default too (a list of another length than the value, a one-element list, a text)
        self.dyn_defaults = {}

        def dyn(ci, name, typ):
            dflt = r.choice([None, None, [1.0], [1.0, 2.0], []]) if name == "arr" else r.choice([None, None, "ab", ""])
            self.dyn_defaults[(ci, name)] = dflt
            return typ if dflt is None else xo.Field(typ, default=dflt)

        # two dynamically sized fields: values of one total size can split it differently (cached offsets of a view go stale)
        d = {"_xofields": {"a": num(0, "a"), "v": num(0, "v"), "mat": xo.Float64[2, 2], "name": dyn(0, "name", xo.String), "arr": dyn(0, "arr", xo.Float64[:]), "brr": xo.Int64[:]}}
        force = force or {}
        ren0 = {"v": "vee"} if r.random() < 0.5 else {}
        if "ren" in force:
            ren0 = dict(force["ren"][0])
        if ren0:
            d["_rename"] = ren0
        Leaf = type(f"HLeaf{uid}", (xo.HybridClass,), d)
        self.spec.append((leaf_fields, ren0))
        self.classes.append(Leaf)
        k1 = force.get("k1") or r.choice(["N", "R"])
        k1b = force["k1b"] if "k1b" in force else r.choice(["N", "R", None])
        f = {"k": num(1, "k"), "leaf": Leaf if k1 == "N" else xo.Ref(Leaf)}
        fields = [("k", "n", None), ("leaf", k1, 0)]
        ren = {}
        if k1b:
            f["leaf_to_rename"] = Leaf if k1b == "N" else xo.Ref(Leaf)
            fields.append(("leaf_to_rename", k1b, 0))
            ren["leaf_to_rename"] = "leaf_renamed"
        d = {"_xofields": f}
        if ren:
            d["_rename"] = ren
        Mid = type(f"HMid{uid}", (xo.HybridClass,), d)
        self.spec.append((fields, ren))
        self.classes.append(Mid)
        k2 = force.get("k2") or r.choice(["N", "R"])
        k3 = force.get("k3") or r.choice(["N", "R"])
        ren2 = {"s": "ess"} if r.random() < 0.5 else {}
        if r.random() < 0.5:
            ren2["mid"] = "middle"
        if "ren" in force:
            ren2 = dict(force["ren"][2])
        f = {"s": num(2, "s"), "mid": Mid if k2 == "N" else xo.Ref(Mid), "leaf": Leaf if k3 == "N" else xo.Ref(Leaf)}
        d = {"_xofields": f}
        if ren2:
            d["_rename"] = ren2
        Top = type(f"HTop{uid}", (xo.HybridClass,), d)
        self.spec.append(([("s", "n", None), ("mid", k2, 1), ("leaf", k3, 0)], ren2))
        self.classes.append(Top)
        # class 3: a class DERIVED from Leaf that declares its fields again with its own defaults (and its own renaming)
        d = {"_xofields": {"a": num(3, "a"), "v": num(3, "v"), "mat": xo.Float64[2, 2], "name": dyn(3, "name", xo.String), "arr": dyn(3, "arr", xo.Float64[:]), "brr": xo.Int64[:]}}
        ren3 = {"a": "aye"} if r.random() < 0.5 else {}
        if "ren" in force:
            ren3 = dict(force["ren"][3])
        if ren3:
            d["_rename"] = ren3
        LeafD = type(f"HLeafD{uid}", (Leaf,), d)
        self.spec.append((leaf_fields, ren3))
        self.classes.append(LeafD)
        self.leaflike = (0, 3)

    def line(self):
        out = []
        for fields, ren in self.spec:
            fs = ",".join(f"{n}=" + ("n" if k == "n" else f"{k}{c}") for n, k, c in fields)
            rn = ",".join(f"{a}>{b}" for a, b in ren.items())
            out.append(fs + "|" + rn)
        return "univ " + ";".join(out)

    def dict_line(self):
        out = []
        for ci, (fields, ren) in enumerate(self.spec):
            out.append(",".join([f"{n}>{ren.get(n, n)}=" + (f"n{self.defaults[(ci, n)]}" if k == "n" else f"{k}{c}") for n, k, c in fields]
                                # a 2-D array of static shape (default: zeros), two arrays of dynamic shape (no default)
                                + (["mat>mat=z4", "name>name=" + self.dyn_code(ci, "name"), "arr>arr=" + self.dyn_code(ci, "arr"), "brr>brr=a"] if ci in self.leaflike else [])))
        return "univ " + ";".join(out)

    def dyn_code(self, ci, name):
        """`a`: no declared default; `d<v>/<v>/…`: the declared default (floats by their IEEE bits, texts by their bytes)"""
        dflt = self.dyn_defaults.get((ci, name))
        if dflt is None:
            return "a"
        xs = dflt.encode("utf-8") if isinstance(dflt, str) else dflt
        return "d" + ("/".join(str(fbits(x)) for x in xs) or "-")

    def pyname(self, ci, xo_name):
        return self.spec[ci][1].get(xo_name, xo_name)

    def cls_index(self, obj):
        for i, c in enumerate(self.classes):
            if type(obj) is c:
                return i
        return None


def short_text(r):
    """a text of 0..7 UTF-8 bytes"""
    t = "".join(r.choice(["a", "b", "z", "é", " ", "0"]) for _ in range(r.randrange(0, 6)))
    while len(t.encode("utf-8")) > 7:
        t = t[:-1]
    return t


def plain_default(U, ci):
    """plain-data value for a nested field of class ci (zeros, null references)"""
    out = {}
    for n, k, c in U.spec[ci][0]:
        if k == "n":
            out[n] = 0
        elif k == "N":
            out[n] = plain_default(U, c)
    if ci in U.leaflike:
        out["mat"] = [[0.0, 0.0], [0.0, 0.0]]
        out["name"] = "abcdefg"
        out["arr"] = [0.0, 0.0]
        out["brr"] = [0, 0]
    return out


class Case:
    def __init__(self, r, fails, tags, force=None):
        xo = common.import_xobjects()
        self.xo = xo
        self.r, self.fails, self.tags = r, fails, tags
        self.U = Universe(r, force=force)
        self.ops, self.exp = [self.U.line()], ["ok"]
        self.ctxs = [xo.ContextCpu(), xo.ContextCpu()]
        self.bufs = []
        for ci in (0, 0, 1):
            self.bufs.append(self.ctxs[ci].new_buffer(4096))
            self.ops.append(f"buf {ci}")
            self.exp.append(f"buf {len(self.bufs) - 1}")
        self.handles = collections.OrderedDict()      # name -> python object (hybrid instance or bare xobject)
        self.stale = set()
        self.last_target = None
        self.last_field = None
        self.coincident = None
        self.nh = 0
        self.ctx = {"component": "hyb", "universe": self.U.line(), "ops": self.ops}

    def fail(self, key, what):
        self.fails.append(common.Failure("oracle", key, what, dict(self.ctx, ops=list(self.ops))))

    def bidx(self, buf):
        for i, b in enumerate(self.bufs):
            if b is buf:
                return i
        self.bufs.append(buf)           # a buffer created by the library (copy to a context)
        return len(self.bufs) - 1

    def loc(self, obj):
        x = obj._xobject if hasattr(obj, "_xobject") else obj
        return (self.bidx(x._buffer), int(x._offset))

    def same(self, obj):
        l = self.loc(obj)
        return ",".join(sorted(n for n, o in self.handles.items() if self.loc(o) == l))

    def desc(self, obj):
        if hasattr(obj, "_xobject"):
            py = ",".join(sorted(f"{k}:{int(v)}" for k, v in obj.__dict__.items() if k in ("z", "w")))
            return f"inst cls={self.U.cls_index(obj)} buf={self.loc(obj)[0]} same={self.same(obj)} movable={'true' if obj._movable else 'false'} py={py}"
        return f"bare buf={self.loc(obj)[0]} same={self.same(obj)}"

    def num_value(self):
        """a number, often one of the values declared as a default somewhere (0, 5, -3)"""
        return self.r.choice([0, 5, -3]) if self.r.random() < 0.35 else self.r.randint(-1000, 1000)

    def new_name(self):
        self.nh += 1
        return f"H{self.nh}"

    def insts(self, ci=None):
        return [(n, o) for n, o in self.handles.items() if hasattr(o, "_xobject") and n not in self.stale and (ci is None or self.U.cls_index(o) == ci)]

    def pick(self):
        """an instance handle and one of its fields, biased to compound classes and compound fields"""
        cands = self.insts()
        if not cands:
            return None
        comp = [(n, o) for n, o in cands if self.U.cls_index(o) > 0]
        hn, obj = self.r.choice(comp if comp and self.r.random() < 0.75 else cands)
        ci = self.U.cls_index(obj)
        fields = self.U.spec[ci][0]
        cf = [f for f in fields if f[1] != "n"]
        n, k, c = self.r.choice(cf if cf and self.r.random() < 0.7 else fields)
        return hn, obj, ci, n, k, c

    # ------------------------------------------------------------------ operations
    def op_new(self, ci=None, bi=None, given=None):
        """given: {xo field name: handle name} for compound fields that must take that dressed object"""
        r, U = self.r, self.U
        ci = r.choice([0, 1, 1, 2, 2, 3]) if ci is None else ci
        bi = r.randrange(3) if bi is None else bi
        kw, words = {}, []
        for n, k, c in U.spec[ci][0]:
            py = U.pyname(ci, n)
            if k == "n":
                v = self.num_value()
                kw[py] = v
                words.append(f"{py}=n{v}")
            elif given and n in given and given[n] is None:
                kw[py] = None
                words.append(f"{py}=none")
            elif given and n in given:
                kw[py] = self.handles[given[n]]
                words.append(f"{py}=i{given[n]}")
            else:
                cands = self.insts(c)
                ch = r.random()
                if cands and ch < 0.6 and given is None:
                    hn, inst = r.choice(cands)
                    kw[py] = inst
                    words.append(f"{py}=i{hn}")
                elif k == "N":
                    kw[py] = plain_default(U, c)
                elif ch < 0.8 or given is not None:
                    kw[py] = None
                    words.append(f"{py}=none")
        if ci in U.leaflike:
            na = r.randint(0, 4)                      # one total size (4 items), different splits - an empty array included
            if r.random() < 0.6:                      # else: left at its default (zeros)
                # values next to the default (zeros) included: "equal to the default" is exact equality, not closeness
                kw["mat"] = [[float(r.choice([0, 0, 0, 1, 7, 1e-9, 5e-324])) for _ in range(2)] for _ in range(2)]
            kw["name"] = short_text(r)                # a text of at most 7 bytes: every string occupies 16 bytes
            nd_, ad_ = U.dyn_defaults.get((ci, "name")), U.dyn_defaults.get((ci, "arr"))
            if nd_ is not None and r.random() < 0.4:
                kw["name"] = nd_                      # equal to the declared default
            kw["arr"] = [float(r.choice([r.randint(0, 9), 0, 1e-9])) for _ in range(na)]
            if ad_ is not None:
                ch_ = r.random()
                if ch_ < 0.35:
                    kw["arr"], na = list(ad_), len(ad_)          # equal to the declared default
                elif ch_ < 0.6 and len(ad_) == 1:
                    kw["arr"] = list(ad_) * na                   # the default's number, another length
                elif ch_ < 0.75 and ad_:
                    kw["arr"] = (list(ad_) + [3.0, 4.0, 5.0])[:na]   # the default with items appended / cut off
            kw["brr"] = [r.randint(10, 19) for _ in range(4 - na)]
        name = self.new_name()
        line = f"new {name} {ci} {bi} " + " ".join(words)
        try:
            obj = U.classes[ci](_buffer=self.bufs[bi], **kw)
            self.handles[name] = obj
            self.ops.append(line.strip())
            self.exp.append(self.desc(obj))
            self.tags["new.ok"] += 1
        except MemoryError:
            self.ops.append(line.strip())
            self.exp.append("err Memory")
            self.tags["new.err-memory"] += 1
        except Exception as ex:
            self.ops.append(line.strip())
            self.exp.append("err " + type(ex).__name__)
            self.fail("C18:constructor-raises:" + type(ex).__name__, f"{U.classes[ci].__name__}({ {k: (v if not hasattr(v, '_xobject') else '<inst>') for k, v in kw.items()} }): {str(ex)[:160]}")

    def op_get(self, target=None):
        p = self.pick() if target is None else self.target(*target)
        if p is None:
            return
        hn, obj, ci, n, k, c = p
        py = self.U.pyname(ci, n)
        name = self.new_name()
        self.ops.append(f"get {name} {hn} {py}")
        try:
            v = getattr(obj, py)
        except Exception as ex:
            self.exp.append("err " + type(ex).__name__)
            self.fail("C18:get-raises:" + type(ex).__name__, f"{hn}.{py}: {str(ex)[:160]}")
            return
        if v is None:
            self.exp.append("none")
        elif hasattr(v, "_xobject") or hasattr(v, "_buffer"):
            self.handles[name] = v
            self.exp.append(self.desc(v))
        else:
            self.exp.append(f"num {int(v)}")
        self.tags["get." + k] += 1

    def target(self, hn, n):
        obj = self.handles[hn]
        ci = self.U.cls_index(obj)
        n, k, c = [f for f in self.U.spec[ci][0] if f[0] == n][0]
        return hn, obj, ci, n, k, c

    def coincident_source(self, obj, n, c):
        """a fresh object of the field's class in ANOTHER buffer of the same context at the SAME offset as the nested field it is
        going to be assigned to (raw padding allocations are invisible to the model: it identifies objects, not addresses)"""
        self.coincident = None
        try:
            part = getattr(obj._xobject, n)
            bi = self.bidx(obj._xobject._buffer)
            if part is None or bi > 1:
                return
            other = self.bufs[1 - bi]
            x = int(part._offset)
            if len(other.chunks) != 1 or other.chunks[0].start > x or other.chunks[0].end < x + 512:
                return
            if x > other.chunks[0].start:
                npad = x - other.chunks[0].start
                other.allocate(npad)
                self.ops.append(f"pad {1 - bi} {npad}")     # recorded for the replay; the model has no addresses: answer not compared
                self.exp.append(None)
            before = len(self.ops)
            self.op_new(ci=c, bi=1 - bi)
            if len(self.ops) > before and self.exp[-1].startswith("inst"):
                name = f"H{self.nh}"
                if int(self.handles[name]._xobject._offset) == x:
                    self.coincident = name
                    self.tags["set.N.source-at-the-field's-offset-in-another-buffer"] += 1
        except Exception:
            self.coincident = None

    def coincident_referent(self, obj, n, c):
        """an object of the nested field's class in ANOTHER buffer whose first reference field denotes a referent lying at exactly the
        offset at which the duplicate of that referent will be allocated in the container's buffer when the object is assigned"""
        self.coincident = None
        try:
            refs = [(rn, rc) for rn, rk, rc in self.U.spec[c][0] if rk == "R"]
            bi = self.bidx(obj._xobject._buffer)
            if not refs or bi > 1:
                return
            own, other = self.bufs[bi], self.bufs[1 - bi]
            if len(own.chunks) != 1 or len(other.chunks) != 1:
                return
            x = int(own.chunks[0].start)
            if other.chunks[0].start > x or other.chunks[0].end < x + 1024:
                return
            if x > other.chunks[0].start:
                npad = x - other.chunks[0].start
                other.allocate(npad)
                self.ops.append(f"pad {1 - bi} {npad}")
                self.exp.append(None)
            rn, rc = refs[0]
            before = len(self.ops)
            self.op_new(ci=rc, bi=1 - bi, given={})
            if len(self.ops) == before or not self.exp[-1].startswith("inst"):
                return
            referent = f"H{self.nh}"
            if int(self.handles[referent]._xobject._offset) != x:
                return
            before = len(self.ops)
            self.op_new(ci=c, bi=1 - bi, given=dict({q: None for q, _ in refs[1:]}, **{rn: referent}))
            if len(self.ops) > before and self.exp[-1].startswith("inst") and int(own.chunks[0].start) == x:
                self.coincident = f"H{self.nh}"
                self.tags["set.N.referent-at-the-offset-of-its-future-duplicate"] += 1
        except Exception:
            self.coincident = None

    def op_set(self, target=None, source=None):
        cands = self.insts()
        if not cands:
            return
        r, U = self.r, self.U
        hn, obj, ci, n, k, c = self.pick() if target is None else self.target(*target)
        py = U.pyname(ci, n)
        if k == "n":
            v = self.num_value()
            word, val = f"n{v}", v
        elif source == "":
            word, val = "none", None
        elif source is not None:
            word, val = f"i{source}", self.handles[source]
        else:
            if k == "N" and r.random() < 0.3:
                self.coincident_source(obj, n, c)
            elif k == "N" and r.random() < 0.4:
                self.coincident_referent(obj, n, c)
            srcs = self.insts(c)
            if k == "N" and self.coincident is not None and r.random() < 0.8:
                srcs = [(self.coincident, self.handles[self.coincident])]
            self.coincident = None
            if k == "R" and (not srcs or r.random() < 0.25):
                word, val = "none", None
            elif srcs:
                sn, val = r.choice(srcs)
                word = f"i{sn}"
            else:
                return
        self.ops.append(f"set {hn} {py} {word}")
        self.last_target = obj
        self.last_field = py
        imgs = [(b_.capacity, bytes(b_.to_bytearray(0, b_.capacity))) for b_ in self.bufs]
        try:
            setattr(obj, py, val)
            self.exp.append("ok")
            self.tags[f"set.{k}.ok"] += 1
            if k == "R" and hasattr(val, "_xobject"):
                # "assigning it to a reference field shares it": the reference IN MEMORY denotes the assigned object afterwards
                try:
                    x = getattr(obj._xobject, n)
                    okr = x is not None and x._buffer is val._xobject._buffer and int(x._offset) == int(val._xobject._offset)
                except Exception:
                    okr = False
                if not okr:
                    for key in ("C18:assigned-reference-not-stored", "C08:hybrid-assigned-reference-not-stored"):
                        self.fail(key, f"{hn}.{py} = {word}: the reference in memory does not denote the assigned object "
                                  f"(it denotes {getattr(x, '_offset', None) if 'x' in dir() else '?'}, the object is at {int(val._xobject._offset)})")
            if k == "N" and hasattr(val, "_xobject"):
                # "assigning a hybrid object to a non-reference field stores an independent copy": equal in value
                try:
                    a, b = self.strip(self.values(getattr(obj, py))), self.strip(self.values(val))
                    xa = self.xvalues(getattr(obj._xobject, n), c)
                except Exception:
                    a = b = xa = None
                if a != b or (xa is not None and xa != b):
                    self.fail("C18:assigned-copy-differs", f"{hn}.{py} = {word}: the field reads {a} (buffer data {xa}), the assigned object {b}")
        except MemoryError:
            self.exp.append("err Memory")
            self.tags[f"set.{k}.err-memory"] += 1
            # a refused assignment (a reference to an object of another buffer) leaves everything as it was
            now = [(b_.capacity, bytes(b_.to_bytearray(0, b_.capacity))) for b_ in self.bufs]
            if now != imgs:
                bad = [i for i, (a_, b_) in enumerate(zip(imgs, now)) if a_ != b_]
                self.fail("C18:refused-assignment-changed-memory", f"{hn}.{py} = {word} was refused (MemoryError) but buffer(s) {bad} changed "
                          f"(capacity {[imgs[i][0] for i in bad]} -> {[now[i][0] for i in bad]})")
        except Exception as ex:
            self.exp.append("err " + type(ex).__name__)
            self.fail("C18:set-raises:" + type(ex).__name__, f"{hn}.{py} = {word}: {str(ex)[:160]}")

    def op_alias(self, target=None):
        """x = obj.f (a nested part); obj.f = x: afterwards two dressed objects (x and the new obj.f) dress the same memory"""
        r, U = self.r, self.U
        cands = [(n, o) for n, o in self.insts() if any(k == "N" for _, k, _ in U.spec[U.cls_index(o)][0])]
        if not cands:
            return
        if target is not None:
            hn, obj, ci, n, k, c = self.target(*target)
        else:
            hn, obj = r.choice(cands)
            ci = U.cls_index(obj)
            n, k, c = r.choice([f for f in U.spec[ci][0] if f[1] == "N"])
        py = U.pyname(ci, n)
        try:
            v = getattr(obj, py)
        except Exception:
            return
        if not hasattr(v, "_xobject"):
            return
        name = self.new_name()
        self.ops.append(f"get {name} {hn} {py}")
        self.handles[name] = v
        self.exp.append(self.desc(v))
        self.ops.append(f"set {hn} {py} i{name}")
        self.last_target = obj
        self.last_field = py
        try:
            setattr(obj, py, v)
            self.exp.append("ok")
            self.tags["alias"] += 1
        except Exception as ex:
            self.exp.append("err " + type(ex).__name__)
            self.fail("C18:set-raises:" + type(ex).__name__, f"{hn}.{py} = {hn}.{py}: {str(ex)[:160]}")

    def op_copy(self, target=None):
        cands = self.insts()
        if not cands:
            return
        hn, obj = self.r.choice(cands)
        bi = self.r.randrange(3)
        if target is not None:
            hn, obj, bi = target[0], self.handles[target[0]], target[1]
        name = self.new_name()
        self.ops.append(f"copy {name} {hn} {bi}")
        try:
            c = obj.copy(_buffer=self.bufs[bi])
            self.handles[name] = c
            self.exp.append(self.desc(c))
            self.tags["copy"] += 1
        except Exception as ex:
            self.exp.append("err " + type(ex).__name__)
            self.fail("C18:copy-raises:" + type(ex).__name__, f"{hn}.copy(_buffer={bi}): {str(ex)[:160]}")

    def op_move(self, target=None):
        cands = self.insts()
        if not cands:
            return
        hn, obj = self.r.choice(cands)
        bi = self.r.randrange(3)
        if target is not None:
            hn, obj, bi = target[0], self.handles[target[0]], target[1]
        self.ops.append(f"move {hn} {bi}")
        before = self.values(obj)
        # an object that is the current NESTED (non-reference) part of another live object, or the referent of a live reference field
        holders = [n2 for n2, o2 in self.insts() if o2 is not obj and self.reaches(o2, obj)]
        has_ref = self.has_refs(self.U.cls_index(obj))
        try:
            obj.move(_buffer=self.bufs[bi])
            self.exp.append("ok")
            self.tags["move.ok"] += 1
            if holders:
                self.fail("C18:nested-or-referenced-object-moved", f"{hn}.move(_buffer={bi}) was accepted although {hn} is part of / referred to by {holders[:3]}")
            if has_ref:
                self.fail("C18:object-with-references-moved", f"{hn}.move(_buffer={bi}) was accepted although its class contains references")
            if self.values(obj) != before:
                self.fail("C18:move-changes-value", f"{hn}.move(_buffer={bi}): value {before} became {self.values(obj)}")
            self.check_in_buffer(obj, self.bufs[bi], hn)
        except MemoryError:
            self.exp.append("err Memory")
            self.tags["move.err-memory"] += 1
        except Exception as ex:
            self.exp.append("err " + type(ex).__name__)
            self.fail("C18:move-raises:" + type(ex).__name__, f"{hn}.move(_buffer={bi}): {str(ex)[:160]}")

    def op_py(self):
        cands = self.insts()
        if not cands:
            return
        hn, obj = self.r.choice(cands)
        k = self.r.choice(["z", "w"])
        if self.r.random() < 0.6:
            v = self.r.randint(0, 99)
            setattr(obj, k, v)
            self.ops.append(f"pyset {hn} {k} {v}")
            self.exp.append("ok")
        else:
            self.ops.append(f"pyget {hn} {k}")
            self.exp.append(f"num {int(getattr(obj, k))}" if k in obj.__dict__ else "noattr")

    def op_str(self, target=None, text=None):
        """assign a text of the same storage size to the string field of a leaf-like instance (the model has no strings: the line is
        recorded for the replay, the Mirror oracle checks the library)"""
        cands = [(n, o) for n, o in self.insts() if self.U.cls_index(o) in self.U.leaflike]
        if target is not None:
            cands = [(target, self.handles[target])] if target in self.handles else []
        if not cands:
            return
        hn, obj = self.r.choice(cands)
        text = short_text(self.r) if text is None else text
        self.ops.append("str " + hn + " " + (text.encode("utf-8").hex() or "-"))
        self.exp.append(None)
        self.last_target = None
        try:
            obj.name = text
            self.tags["str.ok"] += 1
            if str(obj.name) != text or str(obj._xobject.name) != text:
                self.fail("C18:string-attribute", f"{hn}.name = {text!r}: the attribute reads {obj.name!r}, the buffer {obj._xobject.name!r}")
        except Exception as ex:
            self.fail("C18:set-raises:" + type(ex).__name__, f"{hn}.name = {text!r}: {str(ex)[:160]}")

    def op_arr(self, target=None, vals=None):
        """assign new numbers (same length) to an array attribute of a leaf-like instance: the attribute is a view of the buffer data,
        wherever the buffer's storage is NOW (the model has no arrays: recorded for the replay, the Mirror oracle checks the library)"""
        cands = [(n, o) for n, o in self.insts() if self.U.cls_index(o) in self.U.leaflike]
        if target is not None:
            cands = [(target, self.handles[target])] if target in self.handles else []
        if not cands:
            return
        hn, obj = self.r.choice(cands)
        try:
            n = len(obj.arr)
        except Exception:
            return
        vals = [float(self.r.randint(20, 29)) for _ in range(n)] if vals is None else vals[:n]
        self.ops.append("arr " + hn + " " + (",".join(str(int(v)) for v in vals) or "-"))
        self.exp.append(None)
        self.last_target = None
        try:
            obj.arr = vals
            self.tags["arr.ok"] += 1
            a, b = [float(x) for x in obj.arr], [float(x) for x in obj._xobject.arr.to_nparray()]
            if a != vals or b != vals:
                self.fail("C18:array-attribute", f"{hn}.arr = {vals}: the attribute reads {a}, the buffer data {b}")
        except Exception as ex:
            self.fail("C18:set-raises:" + type(ex).__name__, f"{hn}.arr = {vals}: {str(ex)[:160]}")

    def op_growbuf(self, bi=None):
        """an allocation that does not fit: the buffer's storage is replaced by a larger one (recorded as `pad`)"""
        bi = self.r.randrange(2) if bi is None else bi
        b = self.bufs[bi]
        n = int(b.capacity)
        b.allocate(n)
        self.ops.append(f"pad {bi} {n}")
        self.exp.append(None)
        self.tags["buffer-grown"] += 1

    def op_derive(self, ci=None, front=None):
        """ANOTHER hybrid class is defined whose field table is derived from an existing class' `_xofields` (the usual
        `{**Base._xofields, "extra": ...}` idiom) with one more dynamic field, i.e. another layout; an object of it is built and read.
        Nothing was done to the existing objects: the Mirror oracle runs on all of them afterwards (the model has no class
        definitions: the line is recorded for the replay)."""
        xo = common.import_xobjects()
        ci = self.r.choice(self.U.leaflike) if ci is None else ci
        front = (self.r.random() < 0.5) if front is None else front
        base = self.U.classes[ci]
        self.ops.append(f"derive {ci} {int(front)}")
        self.exp.append(None)
        self.last_target = None
        try:
            table = dict(base._xofields)
            table = {"zz_extra": xo.Float64[:], **table} if front else {**table, "zz_extra": xo.Float64[:]}
            d = {"_xofields": table}
            if self.U.spec[ci][1]:
                d["_rename"] = dict(self.U.spec[ci][1])
            Ext = type(f"HExt{next(_uid)}", (xo.HybridClass,), d)
            e = Ext(a=11, v=-12, mat=[[1.0, 2.0], [3.0, 4.0]], name="derived", arr=[5.0, 6.0, 7.0], brr=[8], zz_extra=[9.0, 10.0],
                    _buffer=self.bufs[0])
            x = e._xobject
            got = (int(x.a), int(x.v), [float(q) for q in x.arr.to_nparray()], [int(q) for q in x.brr.to_nparray()],
                   [float(q) for q in x.zz_extra.to_nparray()], str(x.name))
            want = (11, -12, [5.0, 6.0, 7.0], [8], [9.0, 10.0], "derived")
            att = (int(getattr(e, self.U.pyname(ci, "a"))), int(getattr(e, self.U.pyname(ci, "v"))), [float(q) for q in e.arr],
                   [int(q) for q in e.brr], [float(q) for q in e.zz_extra], str(e.name))
            if got != want or att != want:
                self.fail("C18:derived-class-object", f"object of a class derived from the field table of class {ci}: buffer {got}, attributes {att}, given {want}")
            self.tags["derive.ok"] += 1
        except Exception as ex:
            self.fail("C18:derive-raises:" + type(ex).__name__, f"class derived from the field table of class {ci} (extra field {'first' if front else 'last'}): {str(ex)[:160]}")

    # ------------------------------------------------------------------ oracle
    def values(self, obj, depth=0):
        """value of a hybrid instance through its ATTRIBUTES (numbers, nested values; references as the referent's value)"""
        ci = self.U.cls_index(obj)
        out = {}
        for n, k, c in self.U.spec[ci][0]:
            v = getattr(obj, self.U.pyname(ci, n))
            if k == "n":
                out[n] = int(v)
            elif v is None:
                out[n] = None
            elif depth < 4:
                out[n] = self.values(v, depth + 1) if hasattr(v, "_xobject") else ("bare", self.xvalues(v, c))
        if ci in self.U.leaflike:
            out["mat"] = [float(x) for x in np.asarray(obj.mat).reshape(-1)]
            out["name"] = str(obj.name)
            out["arr"] = [float(x) for x in obj.arr]
            out["brr"] = [int(x) for x in obj.brr]
        return out

    def xvalues(self, x, ci, depth=0):
        """value of the underlying XOBJECT (buffer data) of class ci"""
        out = {}
        for n, k, c in self.U.spec[ci][0]:
            v = getattr(x, n)
            if k == "n":
                out[n] = int(v)
            elif v is None:
                out[n] = None
            elif depth < 4:
                out[n] = self.xvalues(v, c, depth + 1)
        if ci in self.U.leaflike:
            out["mat"] = [float(q) for q in x.mat.to_nparray().reshape(-1)]
            out["name"] = str(x.name)
            out["arr"] = [float(q) for q in x.arr.to_nparray()]
            out["brr"] = [int(q) for q in x.brr.to_nparray()]
        return out

    def strip(self, v):
        if isinstance(v, tuple) and v and v[0] == "bare":
            return self.strip(v[1])
        if isinstance(v, dict):
            return {k: self.strip(x) for k, x in v.items()}
        return v

    def has_refs(self, ci, depth=0):
        return any(k == "R" or (k == "N" and depth < 4 and self.has_refs(c, depth + 1)) for _n, k, c in self.U.spec[ci][0])

    def reaches(self, root, obj, depth=0):
        """is `obj` the current value of an attribute somewhere inside `root`?"""
        ci = self.U.cls_index(root)
        if ci is None or depth > 4:
            return False
        for n, k, c in self.U.spec[ci][0]:
            if k == "n":
                continue
            try:
                d = getattr(root, self.U.pyname(ci, n))
            except Exception:
                continue
            if d is obj or (hasattr(d, "_xobject") and self.reaches(d, obj, depth + 1)):
                return True
        return False

    def own_view_stale(self, obj):
        """does the object's own view cache offsets of dynamic fields that are no longer those stored in the buffer?"""
        x = obj._xobject
        try:
            fresh = type(x)._from_buffer(x._buffer, x._offset)
            used = [f.index for f in x._fields if f.is_reference]     # the first dynamic field sits at a class-level offset
            return any(int(fresh._offsets[k]) != int(x._offsets[k]) for k in used)
        except Exception:
            return False

    def stale_parts(self, root, depth=0):
        """dressed objects at or below `root` (current attribute values) whose own view is stale"""
        out = [root] if self.own_view_stale(root) else []
        ci = self.U.cls_index(root)
        if ci is None or depth > 4:
            return out
        for n, k, c in self.U.spec[ci][0]:
            if k == "n":
                continue
            try:
                d = getattr(root, self.U.pyname(ci, n))
            except Exception:
                continue
            if hasattr(d, "_xobject"):
                out += self.stale_parts(d, depth + 1)
        return out

    def check_mirror(self, after):
        """C18: attributes always reflect the underlying buffer data"""
        for hn, obj in list(self.handles.items()):
            if not hasattr(obj, "_xobject") or hn in self.stale:
                continue
            ci = self.U.cls_index(obj)
            # O-30 (views cache the offsets of their dynamic fields): a part that was replaced as a whole THROUGH ANOTHER OBJECT of the
            # same memory - an earlier handle of the nested part, or an earlier dressed object of its container - reads with the old
            # offsets.  Everything reachable from the object the assignment went through must be right (not excused here).
            sp = self.stale_parts(obj)
            tgt = self.last_target
            fresh = None
            if tgt is not None and self.last_field is not None:
                try:
                    fresh = getattr(tgt, self.last_field)      # what this assignment has just dressed
                except Exception:
                    fresh = None
            if not hasattr(fresh, "_xobject"):
                fresh = None
            # excused: stale views that are NOT the part this assignment dressed (nor inside it) - earlier handles, earlier dressed
            # objects of the container, cached referents that are earlier dressed objects of the replaced part
            if sp and tgt is not None and not any(p is tgt for p in sp) and not (fresh is not None and any(p is fresh or self.reaches(fresh, p) for p in sp)):
                self.fail("C18:stale-view-of-part-replaced-through-another-object",
                          f"after `{after}`: a part of {hn} has been assigned, through another object of the same memory, a value of the same size "
                          f"and another division; the view {hn} holds of it caches offsets { {k: int(v) for k, v in sp[0]._xobject._offsets.items()} } that are no longer those in the buffer")
                self.tags["stale-view"] += 1
                return False                 # the history ends here
            try:
                a, b = self.strip(self.values(obj)), self.xvalues(obj._xobject, ci)
            except Exception as ex:
                self.fail("C18:attribute-read-raises:" + type(ex).__name__, f"after `{after}`: reading {hn}: {str(ex)[:160]}")
                return False
            if a != b:
                self.fail("C18:attribute-differs-from-buffer", f"after `{after}`: attributes of {hn} read {a}, its buffer data is {b}")
                return False
            for n, k, c in self.U.spec[ci][0]:
                if k == "n":
                    continue
                d = getattr(obj, self.U.pyname(ci, n))
                x = getattr(obj._xobject, n)
                if (d is None) != (x is None):
                    self.fail("C18:attribute-differs-from-buffer", f"after `{after}`: {hn}.{n} is {d!r}, the buffer holds {x!r}")
                    return False
                if d is not None and self.loc(d) != self.loc(x):
                    self.fail("C18:dressed-object-elsewhere", f"after `{after}`: {hn}.{n} is an object at {self.loc(d)}, the buffer data of that field is at {self.loc(x)}")
                    if str(after).startswith("copy ") and k == "R":
                        # HybridClass.copy() is one of the copies C09 is about: references inside the copy resolve in the copy's own buffer
                        self.fail("C09:hybrid-copy-reference-outside-its-buffer", f"after `{after}`: the reference {hn}.{n} of the copy yields an object at "
                                  f"{self.loc(d)}; the copy's buffer holds the duplicate at {self.loc(x)}")
                    return False
                # ... and so do the parts of its nested parts, to any depth (a nested part that still dresses the parts of the object it
                # was copied FROM mirrors that object, not this one)
                if d is not None and k == "N" and hasattr(d, "_xobject"):
                    bad = self.nested_elsewhere(d, f"{hn}.{n}", 0)
                    if bad:
                        self.fail("C18:dressed-object-elsewhere", f"after `{after}`: {bad}")
                        if str(after).startswith("set "):
                            self.fail("C09:hybrid-nested-assignment-shares-parts", f"after `{after}`: {bad} (the stored copy still dresses parts of the assigned object)")
                        return False
        return True

    def nested_elsewhere(self, obj, where, depth):
        """first nested / referenced part (below obj) whose dressed object is not where the buffer data of that field is"""
        ci = self.U.cls_index(obj)
        if ci is None or depth > 3:
            return None
        for n, k, c in self.U.spec[ci][0]:
            if k == "n":
                continue
            try:
                d = getattr(obj, self.U.pyname(ci, n))
                x = getattr(obj._xobject, n)
            except Exception as ex:
                return f"reading {where}.{n} raises {type(ex).__name__}: {str(ex)[:100]}"
            if (d is None) != (x is None):
                return f"{where}.{n} is {d!r}, the buffer holds {x!r}"
            if d is None:
                continue
            if self.loc(d) != self.loc(x):
                return f"{where}.{n} is an object at {self.loc(d)}, the buffer data of that field is at {self.loc(x)}"
            if k == "N" and hasattr(d, "_xobject"):
                bad = self.nested_elsewhere(d, f"{where}.{n}", depth + 1)
                if bad:
                    return bad
        return None

    def check_in_buffer(self, obj, buf, hn, depth=0):
        ci = self.U.cls_index(obj)
        if obj._xobject._buffer is not buf:
            self.fail("C18:move-left-part-behind", f"after moving {hn}: a dressed part is still in its old buffer")
            return
        for n, k, c in self.U.spec[ci][0]:
            if k == "N" and depth < 4:
                d = getattr(obj, self.U.pyname(ci, n))
                if hasattr(d, "_xobject"):
                    self.check_in_buffer(d, buf, hn, depth + 1)


def fbits(x):
    """a number as the model sees it: an integer as itself, a float as its IEEE-754 bit pattern (0.0 -> 0; no -0.0 is generated)"""
    if isinstance(x, (float, np.floating)):
        return struct.unpack("<Q", struct.pack("<d", float(x)))[0]
    return int(x)


def venc(U, ci, val):
    """V encoding (model) of a value tree by xo names"""
    out = []
    for n, k, c in U.spec[ci][0]:
        v = val[n]
        if k == "n":
            out.append(f"n{int(v)}")
        elif v is None:
            out.append("_")
        else:
            out.append(venc(U, c, v))
    if ci in U.leaflike:
        for n in ("mat", "name", "arr", "brr"):
            xs = val[n].encode("utf-8") if isinstance(val[n], str) else val[n]
            out.append("a" + ("/".join(str(fbits(x)) for x in xs) or "-"))
    return "(" + " ".join(out) + ")"


def canon_dict(d):
    """canonical string of a real to_dict() result (keys sorted; __class__ and the float array dropped)"""
    if d is None:
        return "None"
    if isinstance(d, dict):
        return "{" + ",".join(sorted(f"{k}:{canon_dict(v)}" for k, v in d.items() if k != "__class__")) + "}"
    if hasattr(d, "_fields") and hasattr(d, "_buffer"):        # a bare xobject stored for a reference
        return "{" + ",".join(sorted(f"{f.name}:{canon_dict(getattr(d, f.name))}" for f in d._fields)) + "}"
    if isinstance(d, str):                                      # a string-valued field: its UTF-8 bytes
        return "[" + ",".join(str(b) for b in d.encode("utf-8")) + "]"
    if hasattr(d, "to_nparray"):                                # an xobject array inside the full dictionary of a referent
        d = d.to_nparray()
    if hasattr(d, "__len__"):                                   # an array-valued field: a list of numbers
        return "[" + ",".join(str(fbits(x)) for x in np.asarray(d).reshape(-1)) + "]"
    return str(int(d))


def dict_ops(c, r, lines, expect, ctxs):
    """C19: to_dict / from_dict on every instance handle of a finished history"""
    U = c.U
    lines.append(U.dict_line())
    expect.append("ok")
    ctxs.append(c.ctx)
    # a class DERIVED from another (class 3 from class 0, own defaults): whichever of the two is converted first in the process must
    # not decide the other's defaults - both orders are taken
    insts = list(c.insts())
    first = r.choice([0, 3])
    insts.sort(key=lambda p_: 0 if U.cls_index(p_[1]) == first else 1)
    for hn, obj in insts:
        ci = U.cls_index(obj)
        if c.stale_parts(obj):
            c.tags["dict.skipped-stale-view"] += 1        # O-30: what such a handle reads is not its buffer data
            continue
        try:
            val = c.strip(c.values(obj))
        except Exception:
            continue
        ctx = dict(c.ctx, handle=hn, value=repr(val)[:600])
        try:
            d = obj.to_dict()
        except Exception as ex:
            c.fails.append(common.Failure("oracle", "C19:to_dict-raises:" + type(ex).__name__, f"{hn}.to_dict(): {str(ex)[:200]} (value {val})", ctx))
            continue
        lines.append(f"todict {ci} {venc(U, ci, val)}")
        expect.append(canon_dict(d))
        ctxs.append(ctx)
        c.tags["todict"] += 1
        # elision: a numeric field equal to its declared default must not appear (under its python name)
        for n, k, cc in U.spec[ci][0]:
            if k == "n":
                py = U.pyname(ci, n)
                if int(val[n]) == U.defaults[(ci, n)] and py in d:
                    c.fails.append(common.Failure("oracle", "C19:default-not-omitted", f"{hn}.to_dict() stores {py}={d[py]} although it equals the declared default {U.defaults[(ci, n)]}", ctx))
                if int(val[n]) != U.defaults[(ci, n)] and py not in d:
                    c.fails.append(common.Failure("oracle", "C19:value-omitted", f"{hn}.to_dict() omits {py}={val[n]} (default {U.defaults[(ci, n)]})", ctx))
        try:
            if r.random() < 0.5:
                # rebuilt in memory that has been used before (a buffer full of old bytes): fields the dictionary omits must still
                # be written with their defaults
                pb = c.xo.ContextCpu().new_buffer(2048)
                pb.update_from_buffer(0, bytes([0xA5]) * 2048)
                back = U.classes[ci].from_dict(d, _buffer=pb)
                c.tags["fromdict.into-used-memory"] += 1
            else:
                back = U.classes[ci].from_dict(d)
            v2 = c.strip(c.values(back))
            c.tags["fromdict"] += 1
            if v2 != val:
                c.fails.append(common.Failure("oracle", "C19:dict-roundtrip-differs", f"from_dict(to_dict({hn})) reads {v2}, the object holds {val}; dictionary {canon_dict(d)[:200]}", ctx))
        except Exception as ex:
            c.fails.append(common.Failure("oracle", "C19:from_dict-raises:" + type(ex).__name__, f"from_dict({canon_dict(d)[:200]}): {str(ex)[:200]}", ctx))
        lines.append(f"rt {ci} {venc(U, ci, val)}")
        expect.append("same")
        ctxs.append(ctx)


def force_of(univ_line):
    """the Universe choices encoded in a `univ` protocol line"""
    cl = univ_line.split(" ", 1)[1].split(";")
    kinds, rens = [], []
    for c in cl:
        fs, rn = c.split("|")
        kinds.append({e.split("=")[0]: e.split("=")[1] for e in fs.split(",") if e})
        rens.append({e.split(">")[0]: e.split(">")[1] for e in rn.split(",") if e})
    return {"k1": kinds[1]["leaf"][0], "k1b": kinds[1]["leaf_to_rename"][0] if "leaf_to_rename" in kinds[1] else None,
            "k2": kinds[2]["mid"][0], "k3": kinds[2]["leaf"][0], "ren": rens}


def replay_ops(ops, fails, tags):
    """re-executes a recorded history (protocol lines) on the real library, with the oracle after every operation; returns the case"""
    r = random.Random(7)
    c = Case(r, fails, tags, force=force_of(ops[0]))
    assert c.U.line() == ops[0], (c.U.line(), ops[0])
    U = c.U
    inv = [{v: k for k, v in ren.items()} for _, ren in U.spec]
    skip_check = False
    for line in ops[4:]:
        w = line.split()
        if w[0] == "noread":
            c.ops.append(line)
            c.exp.append(None)
            skip_check = True
            continue
        before = len(c.ops)
        c.last_target = None
        try:
            if w[0] == "new":
                ci = int(w[2])
                given = {}
                nums = {}
                for kv in w[4:]:
                    py, v = kv.split("=")
                    n = inv[ci].get(py, py)
                    if v.startswith("i"):
                        given[n] = v[1:]
                    elif v == "none":
                        given[n] = None
                    elif v.startswith("n"):
                        nums[py] = int(v[1:])
                seq = iter([nums[U.pyname(ci, n)] for n, k, _ in U.spec[ci][0] if k == "n"])
                c.num_value = lambda seq=seq: next(seq)
                c.op_new(ci=ci, bi=int(w[3]), given=given)
                del c.num_value
            elif w[0] == "get":
                ci = U.cls_index(c.handles[w[2]])
                c.op_get(target=(w[2], inv[ci].get(w[3], w[3])))
            elif w[0] == "set":
                ci = U.cls_index(c.handles[w[1]])
                n = inv[ci].get(w[2], w[2])
                if w[3].startswith("n") and w[3] != "none":
                    c.num_value = lambda v=int(w[3][1:]): v
                    c.op_set(target=(w[1], n))
                    del c.num_value
                elif w[3] == "none":
                    c.op_set(target=(w[1], n), source="")
                else:
                    c.op_set(target=(w[1], n), source=w[3][1:])
            elif w[0] == "copy":
                c.op_copy(target=(w[2], int(w[3])))
            elif w[0] == "move":
                c.op_move(target=(w[1], int(w[2])))
            elif w[0] == "str":
                c.op_str(target=w[1], text="" if w[2] == "-" else bytes.fromhex(w[2]).decode("utf-8"))
            elif w[0] == "arr":
                c.op_arr(target=w[1], vals=[] if w[2] == "-" else [float(x) for x in w[2].split(",")])
            elif w[0] == "derive":
                c.op_derive(ci=int(w[1]), front=bool(int(w[2])))
            elif w[0] == "pad":
                c.bufs[int(w[1])].allocate(int(w[2]))
                c.ops.append(line)
                c.exp.append(None)
                continue
            elif w[0] == "pyset":
                setattr(c.handles[w[1]], w[2], int(w[3]))
                c.ops.append(line)
                c.exp.append("ok")
            elif w[0] == "pyget":
                obj = c.handles[w[1]]
                c.ops.append(line)
                c.exp.append(f"num {int(getattr(obj, w[2]))}" if w[2] in obj.__dict__ else "noattr")
        except KeyError:
            break
        if skip_check:
            skip_check = False
            continue
        if len(c.ops) > before and not c.check_mirror(c.ops[-1]):
            break
    return c


def corpus_history(r, fails, tags):
    """minimised past finding (O-31): a reference changed through one of two dressed objects of the same memory"""
    c = Case(r, fails, tags, force={"k1": "R", "k1b": None, "k2": "N", "k3": "R"})
    steps = [("op_new", dict(ci=0, bi=0)), ("op_new", dict(ci=0, bi=0)),
             ("op_new", dict(ci=1, bi=0, given={"leaf": "H1"})),
             ("op_new", dict(ci=2, bi=0, given={"mid": "H3"})),
             ("op_alias", dict(target=("H4", "mid"))),             # H5 = H4.mid ; H4.mid = H5
             ("op_set", dict(target=("H5", "leaf"), source="H2")), # through the earlier object
             ("op_get", dict(target=("H4", "mid"))),               # H6 = H4.mid (the current one)
             ("op_get", dict(target=("H6", "leaf"))),
             ("op_set", dict(target=("H6", "leaf"), source="H1")),
             ("op_get", dict(target=("H5", "leaf"))),
             ("op_set", dict(target=("H5", "leaf"), source="")),   # None through the earlier object
             ("op_get", dict(target=("H6", "leaf"))),              # the current one must read None
             ("op_get", dict(target=("H4", "mid")))]
    for name, kw in steps:
        before = len(c.ops)
        c.last_target = None
        c.last_field = None
        try:
            getattr(c, name)(**kw)
        except KeyError:
            break
        if len(c.ops) > before and not c.check_mirror(c.ops[-1]):
            break
    return c


def corpus_history2(r, fails, tags):
    """a nested part that was never given as a hybrid object (the container is built from plain data, copied, rebuilt from a
    dictionary) lives inside its container all the same: it must not move"""
    c = Case(r, fails, tags, force={"k1": "N", "k1b": None, "k2": "N", "k3": "N"})
    steps = [("op_new", dict(ci=2, bi=0, given={})),               # H1 = Top(plain data)
             ("op_get", dict(target=("H1", "mid"))),               # H2 = H1.mid
             ("op_move", dict(target=("H2", 1))),                  # refused
             ("op_get", dict(target=("H2", "leaf"))),              # H3 = H1.mid.leaf
             ("op_move", dict(target=("H3", 2))),                  # refused
             ("op_copy", dict(target=("H1", 1))),                  # H4 = copy of H1
             ("op_get", dict(target=("H4", "leaf"))),              # H5 = H4.leaf
             ("op_move", dict(target=("H5", 0))),                  # refused
             ("op_move", dict(target=("H4", 2))),                  # the copy itself moves
             ("op_get", dict(target=("H4", "mid"))),
             ("op_move", dict(target=("H6", 0)))]                  # its nested part still does not
    for name, kw in steps:
        before = len(c.ops)
        c.last_target = None
        c.last_field = None
        try:
            getattr(c, name)(**kw)
        except KeyError:
            break
        if len(c.ops) > before and not c.check_mirror(c.ops[-1]):
            break
    return c


def corpus_history3(r, fails, tags):
    """renamed nested parts given as dressed objects follow their container when it moves"""
    c = Case(r, fails, tags, force={"k1": "N", "k1b": "N", "k2": "N", "k3": "N",
                                     "ren": [{}, {"leaf_to_rename": "leaf_renamed"}, {"mid": "middle"}, {}]})
    steps = [("op_new", dict(ci=0, bi=0, given={})), ("op_new", dict(ci=0, bi=0, given={})),
             ("op_new", dict(ci=1, bi=0, given={"leaf": "H1", "leaf_to_rename": "H2"})),      # H3
             ("op_move", dict(target=("H3", 1))),
             ("op_get", dict(target=("H3", "leaf_to_rename"))),                               # H4
             ("op_get", dict(target=("H3", "leaf"))),                                         # H5
             ("op_new", dict(ci=2, bi=1, given={"mid": "H3", "leaf": "H1"})),                 # H6
             ("op_move", dict(target=("H6", 2))),
             ("op_get", dict(target=("H6", "mid"))),                                          # H7
             ("op_get", dict(target=("H7", "leaf_to_rename"))),
             ("op_copy", dict(target=("H6", 0))),
             ("op_move", dict(target=("H6", 0)))]
    for name, kw in steps:
        before = len(c.ops)
        c.last_target = None
        c.last_field = None
        try:
            getattr(c, name)(**kw)
        except KeyError:
            break
        if len(c.ops) > before and not c.check_mirror(c.ops[-1]):
            break
    return c


def corpus_history4(r, fails, tags):
    """a reference re-bound through ANOTHER dressed object of the same memory, then bound again - with no read in between - through
    the first one to what that one still caches: the assignment must reach the memory"""
    c = Case(r, fails, tags, force={"k1": "R", "k1b": None, "k2": "N", "k3": "R"})
    steps = [("op_new", dict(ci=0, bi=0)), ("op_new", dict(ci=0, bi=0)),
             ("op_new", dict(ci=1, bi=0, given={"leaf": "H1"})),
             ("op_new", dict(ci=2, bi=0, given={"mid": "H3"})),
             ("op_alias", dict(target=("H4", "mid"))),             # H5 = H4.mid ; H4.mid = H5
             ("op_get", dict(target=("H4", "mid"))),               # H6: the current dressed object of the same memory
             ("op_set", dict(target=("H6", "leaf"), source="H1")),
             ("op_set", dict(target=("H5", "leaf"), source="H2"), "no-read"),   # re-bound through the other dressed object; the Mirror
                                                                                # oracle (which reads every attribute) is NOT run here
             ("op_set", dict(target=("H6", "leaf"), source="H1")), # no read in between: H6 still caches H1
             ("op_get", dict(target=("H5", "leaf"))),
             ("op_set", dict(target=("H5", "leaf"), source="H2")),
             ("op_set", dict(target=("H5", "leaf"), source="H2"))]
    for name, kw, *opt in steps:
        if opt:
            c.ops.append("noread")          # recorded for the replay: the oracle does not read between this operation and the next
            c.exp.append(None)
        before = len(c.ops)
        c.last_target = None
        c.last_field = None
        try:
            getattr(c, name)(**kw)
        except KeyError:
            break
        if opt:
            continue
        if len(c.ops) > before and not c.check_mirror(c.ops[-1]):
            break
    return c


def corpus_history5(r, fails, tags):
    """an object holding a reference is assigned to a nested field of a container in another buffer; the duplicate of its referent
    lands at the very offset the referent has in its own buffer: the attribute must dress the duplicate, writes must reach it"""
    c = Case(r, fails, tags, force={"k1": "R", "k1b": None, "k2": "N", "k3": "R"})
    c.op_new(ci=2, bi=0, given={"leaf": None})
    if "H1" in c.handles and c.check_mirror(c.ops[-1]):
        c.coincident_referent(c.handles["H1"], "mid", 1)
        src = c.coincident
        c.coincident = None
        if src is not None:
            for name, kw in [("op_set", dict(target=("H1", "mid"), source=src)), ("op_get", dict(target=("H1", "mid"))),
                             ("op_get", dict(target=(f"H{c.nh + 1}", "leaf"))), ("op_py", {}), ("op_get", dict(target=(src, "leaf"))),
                             # the part stored by the assignment lives inside H1: moving it alone must be refused
                             ("op_move", dict(target=(f"H{c.nh + 1}", 1)))]:
                before = len(c.ops)
                c.last_target = None
                c.last_field = None
                try:
                    getattr(c, name)(**kw)
                except KeyError:
                    break
                if len(c.ops) > before and not c.check_mirror(c.ops[-1]):
                    break
    return c


def corpus_history6(r, fails, tags):
    """a reference-free part put into its container by an assignment AFTER construction lives inside the container like one nested at
    construction: moving it alone is refused"""
    c = Case(r, fails, tags, force={"k1": "R", "k1b": None, "k2": "R", "k3": "N"})
    steps = [("op_new", dict(ci=2, bi=0, given={"mid": None})), ("op_new", dict(ci=0, bi=1)),
             ("op_set", dict(target=("H1", "leaf"), source="H2")), ("op_get", dict(target=("H1", "leaf"))),
             ("op_move", dict(target=("H3", 1))), ("op_move", dict(target=("H3", 0))), ("op_get", dict(target=("H1", "leaf"))),
             ("op_move", dict(target=("H2", 0)))]
    for name, kw in steps:
        before = len(c.ops)
        c.last_target = None
        c.last_field = None
        try:
            getattr(c, name)(**kw)
        except KeyError:
            break
        if len(c.ops) > before and not c.check_mirror(c.ops[-1]):
            break
    return c


def corpus_history7(r, fails, tags):
    """an array attribute is read, the buffer's storage is replaced by a larger one, the attribute is assigned: the numbers reach
    the buffer data (the view is of the storage of NOW)"""
    c = Case(r, fails, tags, force={"k1": "R", "k1b": None, "k2": "N", "k3": "N"})
    c.op_new(ci=0, bi=0)
    if "H1" in c.handles and c.check_mirror(c.ops[-1]):
        for name, kw in [("op_arr", dict(target="H1")), ("op_growbuf", dict(bi=0)), ("op_arr", dict(target="H1")),
                         ("op_new", dict(ci=2, bi=0, given={"leaf": "H1"})), ("op_growbuf", dict(bi=0)), ("op_arr", dict(target="H1")),
                         ("op_str", dict(target="H1")), ("op_arr", dict(target="H1"))]:
            before = len(c.ops)
            c.last_target = None
            c.last_field = None
            try:
                getattr(c, name)(**kw)
            except KeyError:
                break
            if len(c.ops) > before and not c.check_mirror(c.ops[-1]):
                break
    return c


def corpus_history9(r, fails, tags):
    """a container is created FIRST at the start of its buffer with a null reference, the referent after it, then bound; the container
    is copied into an empty buffer: the duplicate of the referent lands at the very offset the original referent has in ITS buffer.
    The copy's reference must denote the duplicate (an object of the copy's buffer), also for a copy of the copy and in another context"""
    c = Case(r, fails, tags, force={"k1": "R", "k1b": None, "k2": "N", "k3": "R"})
    c.op_new(ci=1, bi=0, given={"leaf": None})
    if "H1" in c.handles and c.check_mirror(c.ops[-1]):
        for name, kw in [("op_new", dict(ci=0, bi=0)), ("op_set", dict(target=("H1", "leaf"), source="H2")), ("op_get", dict(target=("H1", "leaf"))),
                         ("op_copy", dict(target=("H1", 1))), ("op_get", dict(target=("H4", "leaf"))), ("op_arr", dict(target="H2")),
                         ("op_copy", dict(target=("H1", 2))), ("op_get", dict(target=("H6", "leaf"))), ("op_str", dict(target="H2")),
                         ("op_get", dict(target=("H4", "leaf"))), ("op_copy", dict(target=("H4", 2))), ("op_get", dict(target=("H9", "leaf"))),
                         ("op_get", dict(target=("H1", "leaf")))]:
            before = len(c.ops)
            c.last_target = None
            c.last_field = None
            try:
                getattr(c, name)(**kw)
            except KeyError:
                break
            if len(c.ops) > before and not c.check_mirror(c.ops[-1]):
                break
    return c


def corpus_history10(r, fails, tags):
    """three levels of nesting: a dressed Mid (holding a nested Leaf) is assigned to the nested field of a Top, in the same and in
    another buffer: the stored copy's OWN leaf is what `top.mid.leaf` dresses - a number written through it reaches top's storage"""
    c = Case(r, fails, tags, force={"k1": "N", "k1b": None, "k2": "N", "k3": "N"})
    c.op_new(ci=1, bi=0)
    if "H1" in c.handles and c.check_mirror(c.ops[-1]):
        for name, kw in [("op_new", dict(ci=2, bi=0)), ("op_set", dict(target=("H2", "mid"), source="H1")), ("op_get", dict(target=("H2", "mid"))),
                         ("op_get", dict(target=("H3", "leaf"))), ("op_set", dict(target=("H4", "a"))), ("op_get", dict(target=("H1", "leaf"))),
                         ("op_new", dict(ci=2, bi=1)), ("op_set", dict(target=("H6", "mid"), source="H1")), ("op_get", dict(target=("H6", "mid"))),
                         ("op_get", dict(target=("H7", "leaf"))), ("op_set", dict(target=("H8", "v"))), ("op_arr", dict(target="H8"))]:
            before = len(c.ops)
            c.last_target = None
            c.last_field = None
            try:
                getattr(c, name)(**kw)
            except KeyError:
                break
            if len(c.ops) > before and not c.check_mirror(c.ops[-1]):
                break
    return c


def corpus_history8(r, fails, tags):
    """objects of a class exist; another class is defined from `{**Class._xofields, extra}` (extra dynamic field last / first):
    the existing objects, and new objects of the first class, still mirror their data"""
    c = Case(r, fails, tags, force={"k1": "N", "k1b": None, "k2": "N", "k3": "N"})
    c.op_new(ci=0, bi=0)
    if "H1" in c.handles and c.check_mirror(c.ops[-1]):
        for name, kw in [("op_derive", dict(ci=0, front=False)), ("op_arr", dict(target="H1")), ("op_new", dict(ci=0, bi=0)),
                         ("op_derive", dict(ci=0, front=True)), ("op_str", dict(target="H1")), ("op_new", dict(ci=1, bi=0)),
                         ("op_derive", dict(ci=3, front=False)), ("op_new", dict(ci=3, bi=1))]:
            before = len(c.ops)
            c.last_target = None
            c.last_field = None
            try:
                getattr(c, name)(**kw)
            except KeyError:
                break
            if len(c.ops) > before and not c.check_mirror(c.ops[-1]):
                break
    return c


def run_history(r, fails, tags, n_ops):
    c = Case(r, fails, tags)
    c.op_new(0)
    c.op_new(0)
    for _ in range(n_ops):
        k = r.choice(["new", "new", "get", "get", "set", "set", "set", "set", "alias", "copy", "move", "py", "str", "arr", "arr", "growbuf", "derive"])
        before = len(c.ops)
        c.last_target = None
        c.last_field = None
        getattr(c, "op_" + k)()
        if len(c.ops) > before:
            if not c.check_mirror(c.ops[-1]):
                break
    return c


def run_all(tier, seed, extra=None):
    r = random.Random(seed * 48611 + 1)
    fails, tags = [], collections.Counter()
    n_hist = {"quick": 40, "thorough": 6000}[tier]
    cases, expects, ctxs = [], [], []
    for hi in range(n_hist):
        c = corpus_history(r, fails, tags) if hi == 0 else corpus_history2(r, fails, tags) if hi == 1 else corpus_history3(r, fails, tags) if hi == 2 else corpus_history4(r, fails, tags) if hi == 3 else corpus_history5(r, fails, tags) if hi == 4 else corpus_history6(r, fails, tags) if hi == 5 else corpus_history7(r, fails, tags) if hi == 6 else corpus_history8(r, fails, tags) if hi == 7 else corpus_history9(r, fails, tags) if hi == 8 else corpus_history10(r, fails, tags) if hi == 9 else run_history(r, fails, tags, r.choice([8, 14, 24]))
        if extra:
            extra(c, r)
        cases.append(c.ops)
        expects.append(c.exp)
        ctxs.append(c.ctx)
    got = common.run_driver_sharded("hyb", cases, nproc=8 if n_hist > 200 else 2)
    mism = []
    lines = 0
    for ops, exp, g, ctx in zip(cases, expects, got, ctxs):
        for l, e, a in zip(ops, exp, g):
            lines += 1
            if e is not None and e != a:
                mism.append(common.Failure("tie", "hyb-tie:" + l.split()[0], f"{ctx['universe'][:200]} … `{l}`: implementation `{e}` model `{a}`",
                                           dict(ctx, ops=ops[: ops.index(l) + 1] if l in ops else ops)))
                break
    return {"failures": fails, "mismatches": mism, "lines": lines, "distinct": n_hist, "tags": dict(tags),
            "samples": [" ; ".join(c[:6])[:300] for c in cases[:3]]}


_dc_uid = itertools.count()


def dict_corpus(fails, tags):
    """C19, oracle only (field kinds the model's universes do not have): an array of STATIC shape holding texts (its default cannot be
    built without arguments, O-41), arrays of dynamic shape with a declared default against values of another length / the default's
    number repeated (O-40), a text field with a declared default: `from_dict(to_dict(x))` holds the same values, and a field equal to
    its declared default is not in the dictionary"""
    xo = common.import_xobjects()
    uid = next(_dc_uid)
    K = type(f"HDictCorpus{uid}", (xo.HybridClass,), {"_xofields": {
        "t": xo.String[2], "n": xo.Int64, "v1": xo.Field(xo.Float64[:], default=[1.0]), "v2": xo.Field(xo.Float64[:], default=[1.0, 2.0]),
        "s": xo.Field(xo.String, default="abc"), "m": xo.Field(xo.Int64[2, 2], default=[[1, 2], [3, 4]])}})
    ctx = {"component": "hyb", "corpus": "dict"}
    for t, v1, v2, sv, m in ((["a", "bb"], [1.0], [1.0, 2.0], "abc", [[1, 2], [3, 4]]), (["", "x"], [1.0, 1.0, 1.0], [1.0, 2.0, 3.0], "abd", [[1, 2], [3, 5]]),
                             (["é", "q"], [], [2.0], "", [[0, 0], [0, 0]]), (["k", "l"], [2.0], [1.0], "abcd", [[1, 2], [3, 4]])):
        try:
            x = K(t=t, n=5, v1=v1, v2=v2, s=sv, m=m)
            d = x.to_dict()
            y = K.from_dict(d)
            got = ([str(y.t[0]), str(y.t[1])], int(y.n), [float(q) for q in y.v1], [float(q) for q in y.v2], str(y.s), [[int(q) for q in row] for row in y.m])
            if got != (t, 5, v1, v2, sv, m):
                fails.append(common.Failure("oracle", "C19:dict-roundtrip", f"class with String[2] / defaulted dynamic arrays / defaulted text: from_dict(to_dict(x)) "
                                            f"holds {got}, x holds {(t, 5, v1, v2, sv, m)}; dictionary keys {sorted(k for k in d if k != '__class__')}", ctx))
            for key, val, dflt in (("v1", v1, [1.0]), ("v2", v2, [1.0, 2.0]), ("s", sv, "abc"), ("m", m, [[1, 2], [3, 4]])):
                if (key in d) == (val == dflt):
                    fails.append(common.Failure("oracle", "C19:default-elision", f"field {key} = {val!r} (declared default {dflt!r}) is "
                                                f"{'stored in' if key in d else 'missing from'} the dictionary", ctx))
            tags["dict.corpus.kinds-outside-the-model"] += 1
        except Exception as ex:
            fails.append(common.Failure("oracle", "C19:dict-raises:" + type(ex).__name__, f"to_dict / from_dict of a class with String[2] and defaulted dynamic "
                                        f"fields (v1={v1}, v2={v2}, s={sv!r}): {str(ex)[:160]}", ctx))


def run_dict(tier, seed):
    """C19 on hybrid objects: histories as in run_all, then to_dict / from_dict of every live instance"""
    r = random.Random(seed * 48611 + 7)
    fails, tags = [], collections.Counter()
    dict_corpus(fails, tags)
    n_hist = {"quick": 30, "thorough": 4000}[tier]
    lines, expect, ctxs = [], [], []
    for hi in range(n_hist):
        c = run_history(r, fails, tags, r.choice([6, 10, 16]))
        if hi < 6:
            # corpus: a base-class and a derived-class instance whose common fields hold each other's declared defaults, in a universe
            # where those defaults differ (both conversion orders are taken over the six cases)
            U = c.U
            for fld in ("a", "v"):
                d0, d3 = U.defaults[(0, fld)], U.defaults[(3, fld)]
                if d0 != d3:
                    for ci, val in ((0, d3), (3, d0), (3, d3), (0, d0)):
                        try:
                            kw = {U.pyname(ci, "a"): 1, U.pyname(ci, "v"): 2}
                            kw[U.pyname(ci, fld)] = val
                            c.handles[c.new_name()] = U.classes[ci](_buffer=c.bufs[0], name="t", arr=[1.0], brr=[11, 12, 13], **kw)
                            tags["dict.corpus.defaults-of-base-and-derived"] += 1
                        except Exception:
                            pass
        dict_ops(c, r, lines, expect, ctxs)
    got = common.run_driver("dict", lines)
    mism = []
    for l, e, g, ctx in zip(lines, expect, got, ctxs):
        if e != g:
            mism.append(common.Failure("tie", "dict-tie:" + l.split()[0], f"`{l[:200]}`: implementation `{e[:200]}` model `{g[:200]}`", ctx))
    fails = [f for f in fails if f.key.startswith("C19:")]
    return {"failures": fails, "mismatches": mism, "lines": len(lines), "distinct": tags.get("todict", 0), "tags": dict(tags),
            "samples": lines[1:4]}
