"""Heap component (C08, C09): several buffers in two contexts; values may be existing objects.

Copy construction into the same buffer / another buffer of the same context / another context, reference binding
(existing object in the same buffer, existing object elsewhere, plain data, None), writes through references and through
the originals, buffer growth - every step compared with the executable Lean heap model on the bytes of ALL buffers and the
deep values; oracles written from the property text (aliasing, independence, validity of every reference, null encodings)."""
import collections
import itertools
import random

import numpy as np

from . import common, types as T, layout as L


def mems(bufs):
    return " ".join(f"{b.capacity}:{bytes(b.to_bytearray(0, b.capacity)).hex()}" for b in bufs)


def ref_slots(t, e, prefix=()):
    """(path, slot type, intended value) of every Ref/UnionRef slot reachable without passing a reference"""
    k = t[0]
    if k in ("ref", "uref"):
        yield prefix, t, e
        return
    if k == "struct":
        for n, ft in t[2]:
            yield from ref_slots(ft, e[n], prefix + (("f", n),))
    elif k == "array":
        _, shape, data = e
        for idx in itertools.product(*[range(s) for s in shape]):
            x = data
            for i in idx:
                x = x[i]
            yield from ref_slots(t[1], x, prefix + (("i", idx),))


def scalar_leaves(t, e, prefix=()):
    """(path, scalar type) of scalar leaves, also through non-null references"""
    k = t[0]
    if k == "scalar":
        yield prefix, t
    elif k == "struct":
        for n, ft in t[2]:
            yield from scalar_leaves(ft, e[n], prefix + (("f", n),))
    elif k == "array":
        _, shape, data = e
        for idx in itertools.islice(itertools.product(*[range(s) for s in shape]), 6):
            x = data
            for i in idx:
                x = x[i]
            yield from scalar_leaves(t[1], x, prefix + (("i", idx),))
    elif k == "ref" and e is not None:
        for p, tt in scalar_leaves(t[1], e, prefix):
            yield p, tt
    elif k == "uref" and e is not None:
        for p, tt in scalar_leaves(t[2][e[1]], e[2], prefix):
            yield p, tt


def raw_slot(obj_container, path):
    """(buffer, address) of the slot at `path` of a real object (container side arithmetic through public accessors)"""
    cont = L.nav(obj_container, path[:-1])
    s = path[-1]
    if s[0] == "f":
        fld = getattr(type(cont), s[1])
        _, off = fld.get_offset(cont)
    else:
        off = cont._get_offset(s[1] if len(s[1]) > 1 else s[1][0])
    return cont._buffer, int(off)


def i64at(buf, off):
    return int.from_bytes(bytes(buf.to_bytearray(off, 8)), "little", signed=True)


class H:
    """one case: real buffers + protocol lines + the set of live extents per buffer (from traced allocate calls)"""

    def __init__(self, r):
        xo = common.import_xobjects()
        self.r = r
        self.ctxA, self.ctxB = xo.ContextCpu(), xo.ContextCpu()
        al = r.choice([1, 8, 8, 64])
        caps = [r.choice([64, 512, 2048]) for _ in range(3)]
        self.bufs = [self.ctxA.new_buffer(caps[0]), self.ctxA.new_buffer(caps[1]), self.ctxB.new_buffer(caps[2])]
        self.ops, self.exp = ["reset"], ["ok"]
        self.traced = []
        for i, b in enumerate(self.bufs):
            b.default_alignment = al
            b.update_from_buffer(0, bytes([0xA5]) * b.capacity)
            self.ops.append(f"buf {b.capacity} {al} {0 if i < 2 else 1}")
            self.exp.append(f"ok {i}")
            self.traced.append(L.Traced(b))
        self.live = [[], [], []]
        sz = r.randrange(1, 40)
        o = self.bufs[0].allocate(sz)
        self.note_allocs()
        self.ops.append(f"alloc 0 {sz}")
        self.exp.append(f"off {o}")

    def note_allocs(self):
        new = []
        for i, tb in enumerate(self.traced):
            got = tb.take()
            self.live[i].extend(got)
            new.append(got)
        return new

    def bi(self, buf):
        return [i for i, b in enumerate(self.bufs) if b is buf][0]


def all_refs_valid(hc, t, obj, cache, fails, ctx, what, seen=None, depth=0):
    """C08: every non-null reference of a live object resolves to a live extent of the recorded member type in its own buffer"""
    k = t[0]
    if depth > 6:
        return
    if k == "struct":
        for n, ft in t[2]:
            if ft[0] in ("ref", "uref"):
                check_ref_slot(hc, ft, obj, (("f", n),), cache, fails, ctx, what, depth)
            elif ft[0] in ("struct", "array"):
                try:
                    part = getattr(obj, n)
                except Exception as ex:
                    fails.append(common.Failure("oracle", "C06:part-unreadable:" + type(ex).__name__, f"{what}: field {n} cannot be read: {type(ex).__name__}: {str(ex)[:120]}", ctx))
                    continue
                all_refs_valid(hc, ft, part, cache, fails, ctx, what, seen, depth + 1)
    elif k == "array":
        shape = [int(x) for x in obj._shape]
        if any(s_ < 0 or s_ > 1 << 32 for s_ in shape):
            fails.append(common.Failure("oracle", "C06:shape-garbage", f"{what}: an array reached from the object reports the shape {shape}", ctx))
            return
        for idx in itertools.islice(np.ndindex(*shape), 8):
            if t[1][0] in ("ref", "uref"):
                check_ref_slot(hc, t[1], obj, (("i", idx),), cache, fails, ctx, what, depth)
            elif t[1][0] in ("struct", "array"):
                try:
                    part = obj[idx if len(idx) > 1 else idx[0]]
                except Exception as ex:
                    fails.append(common.Failure("oracle", "C06:part-unreadable:" + type(ex).__name__, f"{what}: item {idx} cannot be read: {type(ex).__name__}: {str(ex)[:120]}", ctx))
                    return
                all_refs_valid(hc, t[1], part, cache, fails, ctx, what, seen, depth + 1)


def check_ref_slot(hc, st, cont, path, cache, fails, ctx, what, depth):
    try:
        _check_ref_slot(hc, st, cont, path, cache, fails, ctx, what, depth)
    except MemoryError:
        raise
    except Exception as ex:
        fails.append(common.Failure("oracle", "C08:reference-unreadable:" + type(ex).__name__,
                                    f"{what}: slot {L.pstr(path)}: {type(ex).__name__}: {str(ex)[:120]}", ctx))


def _check_ref_slot(hc, st, cont, path, cache, fails, ctx, what, depth):
    buf, a = raw_slot(cont, path)
    rel = i64at(buf, a)
    bi = hc.bi(buf)
    if rel == -2**63:
        if st[0] == "uref" and i64at(buf, a + 8) != -1:
            fails.append(common.Failure("oracle", "C08:null-member-index", f"{what}: null union reference at {a} has member index {i64at(buf, a + 8)}", ctx))
        if L.nav(cont, path) is not None:
            fails.append(common.Failure("oracle", "C08:null-not-none", f"{what}: slot {L.pstr(path)} holds the null value but reads {L.nav(cont, path)!r}", ctx))
        return
    tgt = a + rel
    members = [st[1]] if st[0] == "ref" else st[2]
    if st[0] == "uref":
        tid = i64at(buf, a + 8)
        if not 0 <= tid < len(members):
            fails.append(common.Failure("oracle", "C08:member-index", f"{what}: union reference at {a} has member index {tid}", ctx))
            return
        mt = members[tid]
    else:
        mt = members[0]
    starts = {o: n for o, n in hc.live[bi]}
    if tgt not in starts:
        fails.append(common.Failure("oracle", "C08:dangling-reference", f"{what}: reference at buffer {bi} offset {a} resolves to {tgt}, which is not the start of a live object of that buffer (live: {sorted(starts)[:12]})", ctx))
        return
    pyobj = L.nav(cont, path)
    if pyobj is None or pyobj._buffer is not buf or int(pyobj._offset) != tgt:
        fails.append(common.Failure("oracle", "C08:reference-elsewhere", f"{what}: slot {L.pstr(path)} resolves (bytes) to buffer {bi} offset {tgt}, the accessor returns {pyobj!r}", ctx))
        return
    if type(pyobj).__name__ != T.type_name(mt):
        fails.append(common.Failure("oracle", "C08:member-type", f"{what}: reference resolves to a {type(pyobj).__name__}, recorded member {T.type_name(mt)}", ctx))
        return
    all_refs_valid(hc, mt, pyobj, cache, fails, ctx, what, None, depth + 1)


def run_case(R, r):
    xo = common.import_xobjects()
    t = L.new_case(r, True, ref_bias=True)
    for _ in range(8):                       # most cases hold references
        if "(ref " in T.sexp(t) or "(uref " in T.sexp(t) or r.random() < 0.25:
            break
        t = L.new_case(r, True, ref_bias=True)
    d, e = T.val(t, r)
    if T.has_zero_nd(t, d):
        return
    cache = {}
    cls = T.build(t, cache)
    vs, arg = L.vsexp(t, d, cache, "py")
    hc = H(r)
    sx = T.sexp(t)
    ctx = {"component": "heap", "type": sx, "value": repr(d)[:2000]}
    try:
        obj = cls(arg, _buffer=hc.bufs[0])
    except Exception as ex:
        R.fail("C01:constructor-raises:" + type(ex).__name__, f"{sx[:200]}: {str(ex)[:200]}", ctx)
        return
    hc.note_allocs()
    hc.ops += [f"type T {sx}", f"new T h0 0 {vs}"]
    hc.exp += ["ok", f"off {obj._offset} mems {mems(hc.bufs)}"]
    R.distinct.add(sx + vs)
    T.kind_hist(t, R.hist)
    want0 = L.expect_str(t, e, cache)
    all_refs_valid(hc, t, obj, cache, R.fails, ctx, "after construction")
    objs = {"h0": (obj, e)}
    has_refs = "(ref " in sx or "(uref " in sx
    # ------------------------------------------------------------------ copies (C09)
    for j, bi in enumerate(r.sample([0, 1, 2], r.randrange(1, 4))):
        src = r.choice(list(objs))
        sobj, se = objs[src]
        where = ["same buffer", "other buffer, same context", "other context"][0 if hc.bufs[bi] is sobj._buffer else (1 if hc.bufs[bi].context is sobj._buffer.context else 2)]
        c2 = dict(ctx, copy_of=src, into=bi, where=where)
        before_img = [L.image(b) for b in hc.bufs]
        try:
            c = cls(sobj, _buffer=hc.bufs[bi])
        except Exception as ex:
            R.fail("C09:copy-raises:" + type(ex).__name__, f"{sx[:200]} value {repr(d)[:120]}: copy-construction into {where} raises {type(ex).__name__}: {str(ex)[:160]}", c2)
            hc.ops.append(f"new T c{j} {bi} (obj {src})")
            hc.exp.append(None)
            break
        new_allocs = hc.note_allocs()
        # C03: the copy occupies an extent it reserved, and the construction writes nothing outside what it reserved
        try:
            c0, c1 = int(c._offset), int(c._offset) + int(c._get_size())
            if not any(a <= c0 and c1 <= a + n for a, n in new_allocs[bi]):
                R.fail("C03:copy-extent-exceeds-reservation", f"{sx[:200]}: the copy ({where}) reports the extent [{c0},{c1}) but the construction reserved {new_allocs[bi][:6]}", c2)
            for k_, b_ in enumerate(hc.bufs):
                after_img = L.image(b_)
                ch = [i for i in range(min(len(before_img[k_]), len(after_img))) if before_img[k_][i] != after_img[i]
                      and not any(a <= i < a + n for a, n in new_allocs[k_])]
                if ch:
                    R.fail("C03:copy-writes-outside", f"{sx[:200]}: copy-construction into {where} changed bytes {ch[:8]} of buffer {k_} outside the extents it reserved {new_allocs[k_][:6]}", c2)
        except Exception:
            pass
        name = f"c{j}"
        hc.ops.append(f"new T {name} {bi} (obj {src})")
        hc.exp.append(f"off {c._offset} mems {mems(hc.bufs)}")
        R.tags["copy." + where] += 1
        # equal value
        try:
            got = L.deep_str(t, c, cache)
            ws = L.expect_str(t, se, cache)
            if got != ws:
                R.fail("C09:copy-not-equal", f"{sx[:200]}: copy into {where} reads {got[:140]}, the source holds {ws[:140]}", c2)
        except Exception as ex:
            got = None
            R.fail("C09:copy-unreadable:" + type(ex).__name__, f"{sx[:200]} value {repr(d)[:120]}: reading the copy ({where}) raises {type(ex).__name__}: {str(ex)[:120]}", c2)
        hc.ops.append(f"deep {name}")
        hc.exp.append("val " + got if got is not None else None)
        # C05: the bytes of the copy decode, by the documented format alone, to the source's value
        try:
            dd = L.doc_decode(t, L.image(c._buffer), int(c._offset))
            ws = L.expect_str(t, se, cache)
            if dd != ws:
                R.fail("C05:copy-decodes-differently", f"{sx[:200]}: the copy ({where}) decodes by the documented format to {dd[:140]}, the source holds {ws[:140]}", c2)
        except L.DocError as ex:
            R.fail("C05:copy-undecodable", f"{sx[:200]}: the copy ({where}) does not follow the documented format: {str(ex)[:120]}", c2)
        except Exception:
            pass
        # disjoint storage
        if c._buffer is sobj._buffer:
            a0, a1 = int(sobj._offset), int(sobj._offset) + int(sobj._get_size())
            b0, b1 = int(c._offset), int(c._offset) + int(c._get_size())
            if not (a1 <= b0 or b1 <= a0):
                R.fail("C09:storage-overlaps", f"{sx[:200]}: copy [{b0},{b1}) overlaps its source [{a0},{a1})", c2)
        if c._buffer is not hc.bufs[bi]:
            R.fail("C09:wrong-buffer", f"{sx[:200]}: copy was placed in another buffer than requested", c2)
        all_refs_valid(hc, t, c, cache, R.fails, c2, f"copy into {where}")
        # referents: same object when source and copy share a buffer, a duplicate otherwise
        if got is not None:
            for path, st, cur in list(ref_slots(t, se))[:4]:
                try:
                    ta, tb_ = L.nav(sobj, path), L.nav(c, path)
                except Exception:
                    continue
                if ta is None or tb_ is None:
                    continue
                if c._buffer is sobj._buffer:
                    if int(ta._offset) != int(tb_._offset):
                        R.fail("C09:referent-duplicated-in-same-buffer", f"{sx[:200]}: copy in the same buffer refers to {int(tb_._offset)} instead of the source's referent {int(ta._offset)} at {L.pstr(path)}", c2)
                elif tb_._buffer is not c._buffer:
                    R.fail("C09:referent-in-foreign-buffer", f"{sx[:200]}: referent of the copy at {L.pstr(path)} lies in another buffer", c2)
        # independence: a write to one does not show through the other (directly held scalars only)
        leaves = [p for p in scalar_leaves(t, se) if p[0] and not crosses_ref(t, p[0])]
        if leaves and got is not None:
            path, lt = r.choice(leaves)
            nv, _ = T.val(lt, r)
            side = r.choice(["copy", "source"])
            tgt_obj, other, other_name, other_e = (c, sobj, src, se) if side == "copy" else (sobj, c, name, se)
            try:
                before_other = L.deep_str(t, other, cache)
                L.nav_set(tgt_obj, path, T.scalars()[lt[1]]._dtype.type(nv))
                vsx = f"(bits {L.bits_of(lt, nv)})"
                hc.ops.append(f"set {name if side == 'copy' else src} {L.pstr(path)} {vsx}")
                hc.exp.append(f"ok mems {mems(hc.bufs)}")
                after_other = L.deep_str(t, other, cache)
                if after_other != before_other:
                    R.fail("C09:write-shows-through", f"{sx[:200]}: writing {L.pstr(path)} of the {side} ({where}) changed the other object", c2)
                new_e = L.replace_at(t, se, path, float(T.scalars()[lt[1]]._dtype.type(nv)) if T.scalars()[lt[1]]._dtype.kind == "f" else nv)
                if side == "copy":
                    objs[name] = (c, new_e)
                else:
                    objs[src] = (sobj, new_e)
                    objs[name] = (c, se)
                R.tags["copy.independence"] += 1
                continue
            except Exception as ex:
                R.fail("C09:write-after-copy-raises", f"{sx[:200]}: {type(ex).__name__} {str(ex)[:100]}", c2)
        objs[name] = (c, se)
    # ------------------------------------------------------------------ assignment of an existing object to a nested slot
    obj, e0 = objs["h0"]
    cslots = [(p, st, sub) for p, st, sub in L.value_paths(t, e0) if p and st[0] in ("struct", "array") and not crosses_ref(t, p)]
    if cslots:
        path, st, sub = r.choice(cslots)
        how = r.choice(["same-sizes", "same-sizes", "other-sizes", "smaller", "larger"])
        if how == "same-sizes":
            dd = perturb(st, sub, r)
        elif how in ("smaller", "larger"):
            dd = resize(st, perturb(st, sub, r), r, how == "smaller")
            if dd is None:
                how, dd = "other-sizes", T.val(st, r)[0]
        else:
            dd = T.val(st, r)[0]
        ee = dd
        if not T.has_zero_nd(st, dd):
            scls = T.build(st, cache)
            svs, sarg = L.vsexp(st, to_data(st, dd), cache, "py")
            bi = r.choice([0, 0, 1, 2])
            c2 = dict(ctx, assign_instance=how, path=L.pstr(path), from_buffer=bi)
            try:
                inst = scls(sarg, _buffer=hc.bufs[bi])
            except Exception:
                inst = None
            if inst is not None:
                hc.note_allocs()
                hc.ops += [f"type TI {T.sexp(st)}", f"new TI inst {bi} {svs}"]
                hc.exp += ["ok", f"off {inst._offset} mems {mems(hc.bufs)}"]
                before = [L.image(b) for b in hc.bufs]
                try:
                    old = L.deep_str(t, obj, cache)
                except Exception:
                    old = None
                shp_slot = None
                try:
                    slot_obj = L.nav(obj, path)
                    lo, hi = int(slot_obj._offset), int(slot_obj._offset) + int(slot_obj._get_size())
                    if st[0] == "array":
                        shp_slot = [int(x) for x in slot_obj._shape]
                except Exception:
                    lo = hi = None
                try:
                    L.nav_set(obj, path, inst)
                    res = "ok"
                except Exception as ex:
                    res = "err " + L.exc_name(ex)
                hc.note_allocs()          # referents the update created are live objects from here on
                after = [L.image(b) for b in hc.bufs]
                hc.ops.append(f"upd h0 {L.pstr(path)} (obj inst)")
                hc.exp.append(f"{res} mems {mems(hc.bufs)}")
                R.tags[f"assign-instance.{how}.{st[0]}.{res.split()[0]}"] += 1
                try:
                    now = L.deep_str(t, obj, cache)
                except Exception as ex:
                    now = None
                    R.fail("C10:read-after-set-raises", f"{sx[:200]}: after assigning an instance to {L.pstr(path)}: {type(ex).__name__} {str(ex)[:100]}", c2)
                if res == "ok" and st[0] == "array" and lo is not None:
                    try:
                        shp_new = [int(x) for x in inst._shape]
                        if shp_slot is not None and shp_new != shp_slot:
                            R.fail("C11:wrong-shape-accepted", f"{sx[:200]}: an existing {T.type_name(st)} of shape {shp_new} was assigned to the array at {L.pstr(path)} of shape {shp_slot} without error", c2)
                    except Exception:
                        pass
                if res == "ok":
                    new_e0 = L.replace_at(t, e0, path, expected_of(st, ee))
                    w = L.expect_str(t, new_e0, cache)
                    if now is not None and now != w:
                        R.fail("C10:set-wrong", f"{sx[:200]}: after assigning an existing {T.type_name(st)} (capacity {how}) to {L.pstr(path)} the object reads {now[:140]}, expected {w[:140]}", c2)
                    elif now is not None:
                        objs["h0"] = (obj, new_e0)
                        e0 = new_e0
                    if lo is not None and not has_refs:
                        ch = [i for i in range(min(len(before[0]), len(after[0]))) if before[0][i] != after[0][i] and not lo <= i < hi]
                        if ch:
                            R.fail("C03:set-writes-outside", f"{sx[:200]}: assigning an existing {T.type_name(st)} to {L.pstr(path)} (slot [{lo},{hi})) changed bytes {ch[:8]} outside the slot", c2)
                    try:
                        if lo is not None and int(L.nav(obj, path)._get_size()) != hi - lo:
                            R.fail("C11:size-changed", f"{sx[:200]}: the size of the object at {L.pstr(path)} changed from {hi - lo} to {int(L.nav(obj, path)._get_size())} by an assignment", c2)
                    except Exception:
                        pass
                else:
                    if after != before:
                        R.fail("C11:error-with-side-effect:" + ("struct-update" if st[0] == "struct" else "array-value"),
                               f"{sx[:200]}: assigning an existing {T.type_name(st)} (capacity {how}) to {L.pstr(path)} raised {res} but changed the buffer", c2)
                    elif old is not None and now != old:
                        R.fail("C11:error-with-side-effect:value", f"{sx[:200]}: refused assignment changed the value", c2)
                hc.ops.append("deep h0")
                hc.exp.append("val " + now if now is not None else None)
                if res != "ok" and after != before:
                    # the intended value is unknown after a partially applied update: end this case here
                    R.lines += hc.ops
                    R.expect += hc.exp
                    R.ctxs += [ctx] * len(hc.ops)
                    return
    # ------------------------------------------------------------------ reference binding (C08)
    obj, e0 = objs["h0"]
    slots = list(ref_slots(t, e0))
    if slots:
        path, st, cur = r.choice(slots)
        members = [st[1]] if st[0] == "ref" else st[2]
        mi = r.randrange(len(members))
        tt = members[mi]
        kind = r.choice(["existing-same", "existing-other", "value", "none", "existing-same"])
        tcls = T.build(tt, cache)
        c2 = dict(ctx, bind=kind, path=L.pstr(path))
        tobj = None
        ok = True
        if kind.startswith("existing"):
            dd, ee = T.val(tt, r)
            if T.has_zero_nd(tt, dd):
                ok = False
            else:
                tvs, targ = L.vsexp(tt, dd, cache, "py")
                bi = 0 if kind == "existing-same" else r.choice([1, 2])
                try:
                    mk = tcls
                    if kind == "existing-same" and r.random() < 0.5:
                        # the SAME type expression evaluated a second time: other class objects with the same names ("same type" is
                        # decided by name) - the object must still be aliased, not copied
                        mk = T.build(tt, {})
                        R.tags["bind.existing-same.twin-class"] += 1
                    tobj = mk(targ, _buffer=hc.bufs[bi])
                    hc.note_allocs()
                    hc.ops += [f"type TT {T.sexp(tt)}", f"new TT tg {bi} {tvs}"]
                    hc.exp += ["ok", f"off {tobj._offset} mems {mems(hc.bufs)}"]
                    val, vsx = tobj, "(obj tg)"
                except Exception:
                    ok = False
        elif kind == "value":
            dd, ee = T.val(tt, r)
            if T.has_zero_nd(tt, dd):
                ok = False
            else:
                tvs, targ = L.vsexp(tt, dd, cache, "py")
                val, vsx = (targ, tvs) if st[0] == "ref" else ((tcls.__name__, targ), f"(tagged {tcls.__name__} {tvs})")
        else:
            val, vsx, ee = None, "(none)", None
        if ok:
            before_live = [list(x) for x in hc.live]
            try:
                L.nav_set(obj, path, val)
                res = "ok"
            except Exception as ex:
                res = "err"
                R.fail("C08:bind-raises:" + type(ex).__name__, f"{sx[:200]}: assigning {kind} to {L.pstr(path)} raises {type(ex).__name__}: {str(ex)[:160]}", c2)
            new_allocs = hc.note_allocs()
            if res == "ok":
                hc.ops.append(f"bind h0 {L.pstr(path)} {vsx}")
                hc.exp.append(f"ok mems {mems(hc.bufs)}")
                R.tags["bind." + kind] += 1
                new_e0 = L.replace_at(t, e0, path, ee if st[0] == "ref" or ee is None else ("U", mi, ee))
                try:
                    now = L.deep_str(t, obj, cache)
                    w = L.expect_str(t, new_e0, cache)
                    if now != w:
                        R.fail("C08:bound-value-differs", f"{sx[:200]}: after assigning {kind} to {L.pstr(path)} the holder reads {now[:140]}, expected {w[:140]}", c2)
                except Exception as ex:
                    now = None
                    R.fail("C08:read-after-bind-raises:" + type(ex).__name__, f"{sx[:200]}: {str(ex)[:140]}", c2)
                hc.ops.append("deep h0")
                hc.exp.append("val " + now if now is not None else None)
                got_t = L.nav(obj, path)
                if kind == "existing-same":
                    if got_t is None or int(got_t._offset) != int(tobj._offset) or got_t._buffer is not tobj._buffer:
                        R.fail("C08:not-aliased", f"{sx[:200]}: an object of the same buffer assigned to {L.pstr(path)} was not referenced (target {getattr(got_t, '_offset', None)} vs {int(tobj._offset)})", c2)
                        R.fail("C06:reference-target-is-not-the-bound-object", f"{sx[:200]}: the target materialised through the reference at {L.pstr(path)} "
                               f"lives at {getattr(got_t, '_offset', None)}, the handle of the object that was bound at {int(tobj._offset)}: a write "
                               "through one is not seen through the other", c2)
                    elif new_allocs[0]:
                        R.fail("C08:alias-allocated", f"{sx[:200]}: referencing an existing object allocated {new_allocs[0]}", c2)
                    else:
                        alias_check(R, hc, r, tt, ee, tobj, got_t, cache, c2, sx)
                elif kind in ("existing-other", "value"):
                    if got_t is None or got_t._buffer is not obj._buffer:
                        R.fail("C08:copy-not-in-holder-buffer", f"{sx[:200]}: the new referent of {L.pstr(path)} is not in the holder's buffer", c2)
                    else:
                        o_, n_ = int(got_t._offset), int(got_t._get_size())
                        if not any(a == o_ for a, _ in new_allocs[0]):
                            R.fail("C08:copy-not-fresh", f"{sx[:200]}: the referent created for {kind} at {o_} was not freshly allocated (new allocations {new_allocs[0]})", c2)
                        for a, n in before_live[0]:
                            if not (a + n <= o_ or o_ + n_ <= a):
                                R.fail("C08:copy-overlaps-live", f"{sx[:200]}: new referent [{o_},{o_ + n_}) overlaps live [{a},{a + n})", c2)
                                break
                else:
                    if got_t is not None:
                        R.fail("C08:null-not-none", f"{sx[:200]}: None assigned to {L.pstr(path)} reads back {got_t!r}", c2)
                all_refs_valid(hc, t, obj, cache, R.fails, c2, f"after binding {kind}")
                objs["h0"] = (obj, new_e0)
    # ------------------------------------------------------------------ growth: references keep resolving (C08)
    obj, e0 = objs["h0"]
    if has_refs:
        try:
            before = L.deep_str(t, obj, cache)
        except Exception:
            before = None
        if before is not None:
            k = hc.bufs[0].capacity + r.choice([8, 64, 1000])
            hc.bufs[0].grow(k)
            hc.ops.append(f"grow 0 {k}")
            hc.exp.append(f"ok mems {mems(hc.bufs)}")
            try:
                after = L.deep_str(t, obj, cache)
                if after != before:
                    R.fail("C08:growth-changes-value", f"{sx[:200]}: after the buffer grew by {k} the holder reads {after[:140]}, before {before[:140]}", ctx)
            except Exception as ex:
                after = None
                R.fail("C08:growth-breaks-reads:" + type(ex).__name__, f"{sx[:200]}: {str(ex)[:140]}", ctx)
            hc.ops.append("deep h0")
            hc.exp.append("val " + after if after is not None else None)
            all_refs_valid(hc, t, obj, cache, R.fails, ctx, "after growth")
            R.tags["growth"] += 1
    R.lines += hc.ops
    R.expect += hc.exp
    R.ctxs += [ctx] * len(hc.ops)


def perturb(t, e, r):
    """a value with exactly the sizes of `e` (same shapes, same strings, same reference pattern) and fresh scalars; in `val` data form"""
    k = t[0]
    if k == "scalar":
        return T.val(t, r)[1]
    if k == "string":
        return e
    if k == "struct":
        return {n: perturb(ft, e[n], r) for n, ft in t[2]}
    if k == "array":
        _, shape, data = e

        def walk(x, dims):
            if not dims:
                return perturb(t[1], x, r)
            return [walk(y, dims[1:]) for y in x]

        return ("ARR", shape, walk(data, shape))
    if k == "ref":
        return None if e is None else perturb(t[1], e, r)
    if k == "uref":
        return None if e is None else ("U", e[1], perturb(t[2][e[1]], e[2], r))


def to_data(t, e):
    return e


def resize(t, d, r, smaller):
    """`d` with its first dynamically sized part (dynamic array dimension or string) made smaller / larger; None if it has none"""
    k = t[0]
    if k == "string":
        if isinstance(d, tuple):
            return None
        return d[: max(0, len(d) - 9)] if smaller and len(d) >= 9 else (None if smaller else d + "x" * 9)
    if k == "struct":
        for n, ft in t[2]:
            nd = resize(ft, d[n], r, smaller)
            if nd is not None:
                out = dict(d)
                out[n] = nd
                return out
        return None
    if k == "array":
        _, shape, data = d
        dyn = [i for i, x in enumerate(t[2]) if x is None]
        if dyn and (not smaller or shape[dyn[0]] > 0) and len(shape) == 1:
            if smaller:
                return ("ARR", [shape[0] - 1], data[:-1])
            if data:
                return ("ARR", [shape[0] + 1], data + [data[-1]])
            return None
        if shape and int(np.prod(shape)) > 0 and len(shape) == 1:
            nd = resize(t[1], data[0], r, smaller)
            if nd is not None:
                return ("ARR", shape, [nd] + data[1:])
        return None
    return None


def expected_of(t, d):
    """expected deep value of generated data (capacity strings read back empty)"""
    k = t[0]
    if k == "string":
        return "" if isinstance(d, tuple) else d
    if k == "struct":
        return {n: expected_of(ft, d[n]) for n, ft in t[2]}
    if k == "array":
        _, shape, data = d

        def walk(x, dims):
            if not dims:
                return expected_of(t[1], x)
            return [walk(y, dims[1:]) for y in x]

        return ("ARR", shape, walk(data, shape))
    if k == "ref":
        return None if d is None else expected_of(t[1], d)
    if k == "uref":
        return None if d is None else ("U", d[1], expected_of(t[2][d[1]], d[2]))
    if k == "scalar" and T.scalars()[t[1]]._dtype.kind == "f":
        return float(T.scalars()[t[1]]._dtype.type(d))
    return d


def crosses_ref(t, path):
    cur = t
    for s in path:
        if cur[0] == "ref":
            return True
        if cur[0] == "uref":
            return True
        cur = dict(cur[2])[s[1]] if s[0] == "f" else cur[1]
        if cur[0] in ("ref", "uref"):
            return True
    return False


def alias_check(R, hc, r, tt, ee, tobj, via_ref, cache, c2, sx):
    """a write through the original is seen through the reference and vice versa"""
    leaves = [p for p in scalar_leaves(tt, ee) if p[0] and not crosses_ref(tt, p[0])]
    if not leaves:
        return
    path, lt = r.choice(leaves)
    for writer, reader, how in ((tobj, via_ref, "original->reference"), (via_ref, tobj, "reference->original")):
        nv, _ = T.val(lt, r)
        try:
            L.nav_set(writer, path, T.scalars()[lt[1]]._dtype.type(nv))
            hc.ops.append(f"set tg {L.pstr(path)} (bits {L.bits_of(lt, nv)})")
            hc.exp.append(f"ok mems {mems(hc.bufs)}")
            if L.deep_str(lt, L.nav(reader, path), cache) != "b" + str(L.bits_of(lt, nv)):
                R.fail("C08:alias-write-not-visible", f"{sx[:200]}: a write {how} at {L.pstr(path)} is not visible through the other handle", c2)
            R.tags["alias." + how] += 1
        except Exception as ex:
            R.fail("C08:alias-write-raises", f"{sx[:200]}: {type(ex).__name__} {str(ex)[:100]}", c2)


def misuse_cases(R, r):
    """C11 refusals around references and buffers: non-member union value, foreign-context buffer, offset without buffer"""
    xo = common.import_xobjects()
    ctx = {"component": "heap", "op": "misuse"}

    class MA(xo.Struct):
        a = xo.Int64

    class MB(xo.Struct):
        b = xo.Float64

    class MC(xo.Struct):
        c = xo.Int8

    class MU(xo.UnionRef):
        _reftypes = [MA, MB]

    class MH(xo.Struct):
        u = MU
        x = xo.Int64

    c1, c2 = xo.ContextCpu(), xo.ContextCpu()
    buf = c1.new_buffer(256)
    h = MH(u=("MA", {"a": 5}), x=7, _buffer=buf)
    img = L.image(buf)
    for name, fn, exc in (
        ("non-member-object", lambda: setattr(h, "u", MC(c=1, _buffer=buf)), (TypeError, ValueError)),
        ("non-member-name", lambda: setattr(h, "u", ("MC", {"c": 1})), (TypeError, ValueError, KeyError)),
        ("offset-without-buffer", lambda: MA(a=1, _offset=8), (ValueError,)),
        ("offset-zero-without-buffer", lambda: MA(a=1, _offset=0), (ValueError,)),
        ("offset-zero-without-buffer-context", lambda: MA(a=1, _offset=0, _context=c1), (ValueError,)),
        ("offset-without-buffer-array", lambda: xo.Float64[3]([1.0, 2.0, 3.0], _offset=0), (ValueError,)),
        ("offset-without-buffer-string", lambda: xo.String("abc", _offset=0), (ValueError,)),
        ("foreign-context-buffer", lambda: MA(a=1, _context=c2, _buffer=buf), (ValueError,)),
    ):
        before_objs = (int(h.x), h.u.a if h.u is not None else None)
        try:
            fn()
            R.fail("C11:misuse-accepted:" + name, f"{name} did not raise", ctx)
        except exc:
            R.tags["misuse." + name] += 1
        except Exception as ex:
            R.fail("C11:misuse-wrong-exception:" + name, f"{name} raised {type(ex).__name__}: {str(ex)[:100]}", ctx)
        after_img = L.image(buf)[:len(img)]
        if name in ("offset-without-buffer", "foreign-context-buffer") or True:
            if (int(h.x), h.u.a if h.u is not None else None) != before_objs:
                R.fail("C11:misuse-side-effect:" + name, f"{name}: the value of an existing object changed", ctx)


def corpus_cases(R, r):
    """fixed multi-step cases (past findings / seeded changes), run first"""
    xo = common.import_xobjects()
    t = ("struct", "OuterI", [("a", ("struct", "InnerI", [("n", ("scalar", 2)), ("data", ("array", ("scalar", 0), [None], [0]))])), ("b", ("scalar", 2))])
    cache = {}
    cls = T.build(t, cache)
    icls = T.build(t[2][0][1], cache)
    for how, idata in (("same", [4.0, 5.0, 6.0]), ("smaller", [9.0]), ("larger", [1.0, 2.0, 3.0, 4.0])):
        hc = H(r)
        ctx = {"component": "heap", "corpus": "assign-instance-" + how, "type": T.sexp(t)}
        d = {"a": {"n": 1, "data": ("ARR", [3], [1.0, 2.0, 3.0])}, "b": 7}
        vs, arg = L.vsexp(t, d, cache, "py")
        obj = cls(arg, _buffer=hc.bufs[0])
        hc.note_allocs()
        hc.ops += [f"type T {T.sexp(t)}", f"new T h0 0 {vs}"]
        hc.exp += ["ok", f"off {obj._offset} mems {mems(hc.bufs)}"]
        di = {"n": 5, "data": ("ARR", [len(idata)], idata)}
        ivs, iarg = L.vsexp(t[2][0][1], di, cache, "py")
        inst = icls(iarg, _buffer=hc.bufs[1])
        hc.note_allocs()
        hc.ops += [f"type TI {T.sexp(t[2][0][1])}", f"new TI inst 1 {ivs}"]
        hc.exp += ["ok", f"off {inst._offset} mems {mems(hc.bufs)}"]
        size0 = int(obj.a._get_size())
        before = [L.image(b) for b in hc.bufs]
        try:
            obj.a = inst
            res = "ok"
        except Exception as ex:
            res = "err " + L.exc_name(ex)
        after = [L.image(b) for b in hc.bufs]
        hc.ops.append("upd h0 f:a (obj inst)")
        hc.exp.append(f"{res} mems {mems(hc.bufs)}")
        if int(obj.a._get_size()) != size0:
            R.fail("C11:size-changed", f"assigning an InnerI with {len(idata)} items to a slot created with 3 items changed the slot's stored size from {size0} to {int(obj.a._get_size())} ({res})", ctx)
        if res == "ok" and how != "same":
            R.fail("C11:misfit-accepted", f"an InnerI with {len(idata)} items was assigned to a slot created with 3 items without error; data is now {[float(x) for x in obj.a.data.to_nparray()]}", ctx)
        if res != "ok" and after != before:
            R.fail("C11:error-with-side-effect:struct-update", f"{T.sexp(t)}: assigning an existing InnerI (capacity {how}) to f:a raised {res} but changed the buffer", ctx)
        if int(obj.b) != 7:
            R.fail("C03:set-writes-outside", f"assigning an InnerI (capacity {how}) to f:a changed the sibling field b to {int(obj.b)}", ctx)
        R.tags["corpus.assign-instance-" + how] += 1
        R.lines += hc.ops
        R.expect += hc.exp
        R.ctxs += [ctx] * len(hc.ops)


def corpus_ref_struct(R, r):
    """assigning an existing reference-holding struct of the SAME buffer to a nested slot (regression of the byte-copy fix):
    the nested reference must denote the source's referent"""
    xo = common.import_xobjects()
    tT = ("struct", "CT", [("v", ("scalar", 2))])
    tR = ("struct", "CR", [("p", ("ref", tT)), ("x", ("scalar", 2))])
    tB = ("struct", "CB", [("r", tR), ("k", ("scalar", 2))])
    cache = {}
    cT, cR, cB = T.build(tT, cache), T.build(tR, cache), T.build(tB, cache)
    hc = H(r)
    ctx = {"component": "heap", "corpus": "assign-ref-struct-same-buffer", "type": T.sexp(tB)}
    buf = hc.bufs[0]
    t1 = cT(v=11, _buffer=buf)
    t2 = cT(v=22, _buffer=buf)
    hc.note_allocs()
    hc.ops += [f"type TT {T.sexp(tT)}", "new TT t1 0 (dict (v (bits 11)))", "new TT t2 0 (dict (v (bits 22)))"]
    hc.exp += ["ok", None, f"off {t2._offset} mems {mems(hc.bufs)}"]
    b = cB(r={"p": t1, "x": 1}, k=7, _buffer=buf)
    hc.note_allocs()
    hc.ops += [f"type T {T.sexp(tB)}", "new T h0 0 (dict (r (dict (p (obj t1)) (x (bits 1)))) (k (bits 7)))"]
    hc.exp += ["ok", f"off {b._offset} mems {mems(hc.bufs)}"]
    src = cR(p=t2, x=2, _buffer=buf)
    hc.note_allocs()
    hc.ops += [f"type TI {T.sexp(tR)}", "new TI inst 0 (dict (p (obj t2)) (x (bits 2)))"]
    hc.exp += ["ok", f"off {src._offset} mems {mems(hc.bufs)}"]
    try:
        b.r = src
        res = "ok"
    except Exception as ex:
        res = "err " + L.exc_name(ex)
    hc.ops.append("upd h0 f:r (obj inst)")
    hc.exp.append(f"{res} mems {mems(hc.bufs)}")
    try:
        tgt = b.r.p
        if tgt is None or int(tgt._offset) != int(t2._offset) or int(tgt.v) != 22 or int(b.r.x) != 2 or int(b.k) != 7:
            R.fail("C08:assigned-reference-wrong", f"b.r = r (same buffer, r.p -> object at {int(t2._offset)}): b.r.p now resolves to {getattr(tgt, '_offset', None)} (v={getattr(tgt, 'v', None)}), x={int(b.r.x)}, k={int(b.k)}", ctx)
    except Exception as ex:
        R.fail("C08:assigned-reference-unreadable", f"b.r = r: reading b.r.p raises {type(ex).__name__}: {str(ex)[:120]}", ctx)
    all_refs_valid(hc, tB, b, cache, R.fails, ctx, "after assigning a reference-holding struct")
    R.tags["corpus.assign-ref-struct"] += 1
    R.lines += hc.ops
    R.expect += hc.exp
    R.ctxs += [ctx] * len(hc.ops)


_rd_uid = itertools.count()


def corpus_ref_defaults(R, r):
    """reference fields that DECLARE a non-null default referent (oracle only; the model has no declared defaults): an explicit
    None is the null reference (C01/C08), and a copy of an object whose references were set to null has null references, in the
    same buffer, another buffer and another context, also nested in a struct and in an array (C09)"""
    xo = common.import_xobjects()
    uid = next(_rd_uid)
    ctx = {"component": "heap", "corpus": "ref-field-with-declared-default"}
    Target = type(f"RDT{uid}", (xo.Struct,), {"x": xo.Float64, "v": xo.Float64[:]})
    Holder = type(f"RDH{uid}", (xo.Struct,), {
        "a": xo.Float64,
        "arr": xo.Field(xo.Ref[xo.Float64[:]], default=[1.0, 2.0, 3.0]),
        "tgt": xo.Field(xo.Ref[Target], default=Target(x=7, v=[7, 7])),
        "plain": xo.Ref[Target]})
    Outer = type(f"RDO{uid}", (xo.Struct,), {"k": xo.Int64, "h": Holder})
    HArr = Holder[:]

    def describe(h):
        arr = None if h.arr is None else [float(x) for x in h.arr.to_nparray()]
        tgt = None if h.tgt is None else (float(h.tgt.x), [float(x) for x in h.tgt.v.to_nparray()])
        plain = None if h.plain is None else (float(h.plain.x), [float(x) for x in h.plain.v.to_nparray()])
        return (float(h.a), arr, tgt, plain)

    try:
        c1 = xo.ContextCpu()
        buf = c1.new_buffer(r.choice([512, 4096]))
        t0 = Target(x=5, v=[5, 6], _buffer=buf)
        e = Holder(a=2.5, arr=None, tgt=None, plain=None, _buffer=buf)
        if describe(e) != (2.5, None, None, None):
            R.fail("C08:explicit-none-not-null", f"Holder(arr=None, tgt=None, plain=None) with declared default referents reads {describe(e)}", ctx)
        src = Holder(a=1.5, plain=t0, _buffer=buf)
        if describe(src) != (1.5, [1.0, 2.0, 3.0], (7.0, [7.0, 7.0]), (5.0, [5.0, 6.0])):
            R.fail("C01:declared-default-not-used", f"Holder(a=1.5, plain=t0) reads {describe(src)}", ctx)
        which = r.choice([("arr",), ("tgt",), ("arr", "tgt")])
        for f in which:
            setattr(src, f, None)
        want = describe(src)
        if any(getattr(src, f) is not None for f in which):
            R.fail("C08:null-not-none", f"{which} set to None read back {want}", ctx)
        places = [("same buffer", dict(_buffer=buf)), ("other buffer, same context", dict(_buffer=c1.new_buffer(1024))),
                  ("other context", dict(_context=xo.ContextCpu()))]
        for where, kw in places:
            forms = [("direct", lambda: describe(Holder(src, **kw))),
                     ("nested in a struct", lambda: describe(Outer(k=1, h=src, **kw).h)),
                     ("array item", lambda: describe(HArr([src, src], **kw)[1]))]
            for form, fn in forms:
                got = fn()
                R.tags["corpus.ref-defaults.copy"] += 1
                if got != want:
                    R.fail("C09:copy-not-equal", f"struct with reference fields declaring default referents, {which} set to null: copy ({form}, {where}) reads {got}, the source holds {want}", dict(ctx, where=where, form=form))
    except Exception as ex:
        R.fail("C09:copy-raises:" + type(ex).__name__, f"reference fields with declared defaults: {type(ex).__name__}: {str(ex)[:160]}", ctx)


def corpus_ref_convertible(R, r):
    """an object of the holder's buffer that is NOT of the reference's member type (a statically shaped array given to a reference
    to a dynamically shaped one) cannot be aliased: the reference must denote an object of the member type holding that value"""
    xo = common.import_xobjects()
    ctx = {"component": "heap", "corpus": "ref-bound-to-convertible-object"}
    try:
        uid = next(_rd_uid)
        A3, AD = xo.Float64[3], xo.Float64[:]
        Hc = type(f"RCH{uid}", (xo.Struct,), {"a": xo.Ref[AD], "k": xo.Int64})
        buf = xo.ContextCpu().new_buffer(r.choice([256, 2048]))
        src = A3([1.0, 2.0, 3.0], _buffer=buf)
        h = Hc(k=1, _buffer=buf)
        h.a = src
        got = h.a
        if type(got).__name__ != AD.__name__ or [float(x) for x in got.to_nparray()] != [1.0, 2.0, 3.0]:
            R.fail("C08:bound-value-wrong", f"Ref[Float64[:]] bound to a Float64[3] of the same buffer reads {type(got).__name__} {list(got.to_nparray())[:6]}, expected the value [1, 2, 3] as a Float64[:]", ctx)
        if int(got._offset) == int(src._offset):
            R.fail("C08:aliased-wrong-type", "a reference to Float64[:] denotes the memory of a Float64[3] object (no header there)", ctx)
        src[0] = 9.0
        if float(h.a[0]) != 1.0:
            R.fail("C08:copy-not-independent", "the referent created for an object of another type changed with the original", ctx)
        R.tags["corpus.ref-convertible"] += 1
    except Exception as ex:
        R.fail("C08:bind-raises:" + type(ex).__name__, f"binding a Float64[3] to Ref[Float64[:]]: {str(ex)[:160]}", ctx)


def corpus_copy_twice(R, r):
    """two copies of a reference-holding object into the SAME other buffer with writes in between (oracle only): every copy
    duplicates the referent as it is NOW, and the duplicates are independent of each other and of the source"""
    xo = common.import_xobjects()
    uid = next(_rd_uid)
    leaf = type(xo.Struct)(f"Ct{uid}Leaf", (xo.Struct,), {"v": xo.Int64, "w": xo.Float64[:]})
    hold = type(xo.Struct)(f"Ct{uid}Hold", (xo.Struct,), {"k": xo.Int64, "p": xo.Ref[leaf], "q": xo.Ref[leaf][2]})
    ctx = {"component": "heap", "corpus": "copy-twice-into-one-buffer"}
    for dst_same_ctx in (True, False):
        ctx0 = xo.ContextCpu()
        b0, b1 = ctx0.new_buffer(64), (ctx0 if dst_same_ctx else xo.ContextCpu()).new_buffer(32)
        try:
            l1 = leaf(v=5, w=[1.0, 2.0, 3.0], _buffer=b0)
            src = hold(k=4, p=l1, q=[l1, None], _buffer=b0)
            c1 = hold(src, _buffer=b1)
            src.p.v = 10
            src.p.w[1] = -2.0
            c2 = hold(src, _buffer=b1)
            c3 = hold(c1, _buffer=b1)              # a copy of the first copy, same buffer: shares c1's referent
            got = [(int(x.k), int(x.p.v), [float(y) for y in x.p.w], None if x.q[0] is None else int(x.q[0].v), x.q[1]) for x in (src, c1, c2, c3)]
            want = [(4, 10, [1.0, -2.0, 3.0], 10, None), (4, 5, [1.0, 2.0, 3.0], 5, None), (4, 10, [1.0, -2.0, 3.0], 10, None),
                    (4, 5, [1.0, 2.0, 3.0], 5, None)]
            if got != want:
                R.fail("C09:second-copy-not-equal", f"Hold{{k, p: Ref[Leaf], q: Ref[Leaf][2]}}: source, 1st copy, 2nd copy (after a write "
                       f"through the source's reference), copy of the 1st copy - all but the source in one other buffer - read {got}, expected {want}", ctx)
            if int(c1.p._offset) == int(c2.p._offset) or c2.p._buffer is not b1 or c1.p._buffer is not b1:
                R.fail("C09:referent-shared-between-copies", f"the referents of two copies into one other buffer are at {int(c1.p._offset)} and "
                       f"{int(c2.p._offset)} (buffers ok: {c1.p._buffer is b1}, {c2.p._buffer is b1})", ctx)
            if int(c3.p._offset) != int(c1.p._offset):
                R.fail("C09:referent-duplicated-in-same-buffer", f"a copy of a copy in the same buffer refers to {int(c3.p._offset)}, its source to {int(c1.p._offset)}", ctx)
            c1.p.v = 77
            if int(c2.p.v) != 10 or int(src.p.v) != 10 or int(c3.p.v) != 77:
                R.fail("C09:write-shows-through", f"a write through the 1st copy's reference: 2nd copy reads {int(c2.p.v)}, source {int(src.p.v)}, "
                       f"the copy sharing the referent {int(c3.p.v)}", ctx)
        except Exception as ex:
            R.fail("C09:copy-raises:" + type(ex).__name__, f"copy twice into one buffer: {type(ex).__name__}: {str(ex)[:160]}", ctx)
        R.tags["corpus.copy-twice"] += 1


def corpus_string_instances(R, r):
    """a String INSTANCE with spare room (created from a capacity, or overwritten by a shorter text) given as a value: stand-alone
    copy, struct field, array item - the new object is equal in value, reports the extent it reserved and disturbs no neighbour
    (oracle only)"""
    xo = common.import_xobjects()
    uid = next(_rd_uid)
    S = type(xo.Struct)(f"Si{uid}Rec", (xo.Struct,), {"k": xo.Int64, "s": xo.String, "z": xo.Int64})
    A = xo.String[:]
    ctx = {"component": "heap", "corpus": "string-instance-with-spare-room"}
    for how in (30, 17, 9):
        buf = xo.ContextCpu().new_buffer(64 if how == 30 else 512)
        buf.update_from_buffer(0, bytes([0xA5]) * buf.capacity)
        try:
            src = xo.String(how, _buffer=buf)          # a capacity: the empty text with spare room
            text = ""
            for what, build in (("String(src)", lambda: xo.String(src, _buffer=buf)),
                                ("Rec(s=src)", lambda: S(k=1, s=src, z=2, _buffer=buf)),
                                ("String[:]([src, 'x'])", lambda: A([src, "x"], _buffer=buf))):
                log = []
                img0 = bytes(buf.to_bytearray(0, buf.capacity))
                orig = buf.allocate
                buf.allocate = lambda size, align=True, _o=orig, _l=log: (_l.append((int(_o(size) if align is True else _o(size, align)), int(size))) or _l[-1][0])
                try:
                    obj = build()
                finally:
                    del buf.allocate
                img1 = bytes(buf.to_bytearray(0, buf.capacity))
                wild = [i for i in range(min(len(img0), len(img1))) if img0[i] != img1[i] and not any(o <= i < o + n_ for o, n_ in log)]
                if wild:
                    R.fail("C03:construction-wrote-outside", f"{what} with src a String with spare room (capacity {how}): bytes {wild[:6]} outside the "
                           f"extents it reserved ({log}) changed", ctx)
                guard = xo.String("neighbour", _buffer=buf)          # the next object in the buffer
                if isinstance(obj, xo.String):
                    got = obj.to_str()
                elif isinstance(obj, S):
                    got = (int(obj.k), obj.s, int(obj.z))
                    got = got[1] if got[0] == 1 and got[2] == 2 else got
                else:
                    got = obj[0] if obj[1] == "x" else (obj[0], obj[1])
                size = int(obj._get_size()) if hasattr(obj, "_get_size") else int(obj._size)
                own = [(o, n) for o, n in log if o == int(obj._offset)]
                if got != text or guard.to_str() != "neighbour":
                    R.fail("C01:value-differs", f"{what} with src a String with spare room (capacity {how}): reads {got!r} (expected {text!r}); the next "
                           f"object in the buffer reads {guard.to_str()!r}", ctx)
                if not own or own[0][1] != size:
                    R.fail("C03:size-vs-extent", f"{what} with src a String with spare room (capacity {how}): reports size {size} at {int(obj._offset)} but "
                           f"reserved {log}", ctx)
                R.tags["corpus.string-instance"] += 1
                # a String instance with LESS room than the slot is accepted - and the slot keeps the room it was created with: a text
                # that fitted at creation still fits afterwards
                if not isinstance(obj, xo.String):
                    small = xo.String("ab", _buffer=r.choice([buf, xo.ContextCpu().new_buffer(64)]))
                    full = "y" * ((how + 8) // 8 * 8 - 9)        # the longest text whose planned (slot-rounded) size fits the room
                    try:
                        if isinstance(obj, S):
                            obj.s = small
                            got1 = obj.s
                            obj.s = full
                            got2 = obj.s
                        else:
                            obj[0] = small
                            got1 = obj[0]
                            obj[0] = full
                            got2 = obj[0]
                        if got1 != "ab" or got2 != full:
                            R.fail("C10:set-wrong", f"{what}: slot <- String('ab') reads {got1!r}; then <- {len(full)} characters reads {got2!r}", ctx)
                        R.tags["corpus.string-instance.smaller-instance-assigned"] += 1
                    except Exception as ex:
                        for key in ("C11:space-fixed-at-creation-shrank", "C10:fitting-assignment-refused"):
                            R.fail(key, f"{what}: after assigning a String instance with less room ('ab', 16 bytes) to the string slot created with "
                                   f"capacity {how}, a text of {len(full)} characters - which fitted at creation - is refused: {type(ex).__name__}: "
                                   f"{str(ex)[:100]}", ctx)
                    if guard.to_str() != "neighbour":
                        R.fail("C03:write-outside-extent", f"{what}: assigning String instances to the slot changed the next object", ctx)
                # a String instance that is LARGER than the slot (its text would fit, its room does not) is refused by assignment
                if not isinstance(obj, xo.String):
                    big = xo.String(how + 40, _buffer=xo.ContextCpu().new_buffer(128))
                    img2 = bytes(buf.to_bytearray(0, buf.capacity))
                    try:
                        if isinstance(obj, S):
                            obj.s = big
                        else:
                            obj[0] = big
                        R.fail("C11:misfit-accepted", f"{what}: assigning a String instance of {int(big._size)} bytes (empty text, spare room) to "
                               f"the string slot created for capacity {how} was accepted", ctx)
                    except Exception:
                        R.tags["corpus.string-instance.refused"] += 1
                    if bytes(buf.to_bytearray(0, buf.capacity)) != img2:
                        R.fail("C11:error-with-side-effect", f"{what}: assigning a larger String instance to the string slot (capacity {how}) "
                               f"changed the buffer", ctx)
        except Exception as ex:
            R.fail("C01:constructor-raises:" + type(ex).__name__, f"a String instance with spare room (capacity {how}) as a value: {type(ex).__name__}: {str(ex)[:160]}", ctx)


def corpus_refusals(R, r):
    """C11, oracle only: (a) fields declared through an explicit `xo.Field(type, default=...)` refuse what bare-typed fields refuse;
    (b) nested lists that are ragged only deep inside a LATER block are no value of any shape.  Every refusal leaves the buffer as it was."""
    xo = common.import_xobjects()
    import numpy as np
    uid = next(_rd_uid)
    ctx = {"component": "heap", "corpus": "refusals"}

    def refused(what, buf, fn):
        img = bytes(buf.to_bytearray(0, buf.capacity))
        try:
            fn()
            R.fail("C11:misfit-accepted", f"{what} was accepted", ctx)
        except Exception:
            R.tags["corpus.refusals.refused"] += 1
        if bytes(buf.to_bytearray(0, buf.capacity)) != img:
            R.fail("C11:error-with-side-effect", f"{what}: the buffer changed", ctx)

    # (a)
    D = type(xo.Struct)(f"Decl{uid}", (xo.Struct,), {
        "n": xo.Int64, "v": xo.Field(xo.Float64[:], default=[1.0, 2.0]), "s": xo.Field(xo.String, default="ab"),
        "m": xo.Field(xo.Int64[:, :], default=[[1, 2], [3, 4]]), "t": xo.Int64[:]})
    for kind in ("numpy", "bytearray"):
        buf = alloc_buffer(xo, kind)
        try:
            d = D(n=5, t=[7, 8], _buffer=buf)
            guard = xo.String("neighbour", _buffer=buf)
        except Exception as ex:
            R.fail("C11:corpus-raises", f"struct with declared fields: {type(ex).__name__}: {str(ex)[:120]}", ctx)
            continue
        for name, bad in (("v", [1.0, 2.0, 3.0, 4.0, 5.0, 6.0]), ("v", [1.0]), ("v", np.zeros(5)), ("s", "x" * 40),
                          ("m", [[1, 2, 3], [4, 5, 6]]), ("m", [[1, 2]]), ("t", [1, 2, 3]), ("t", [])):
            refused(f"declared-field struct: {name} = {bad!r} (another length / shape / too long)", buf, lambda: setattr(d, name, bad))
        try:
            d.v = [3.0, 4.0]
            d.s = "c"
            d.m = [[5, 6], [7, 8]]
            ok = (list(d.v) == [3.0, 4.0] and d.s == "c" and [int(d.m[i, j]) for i in range(2) for j in range(2)] == [5, 6, 7, 8]
                  and list(d.t) == [7, 8] and int(d.n) == 5 and guard.to_str() == "neighbour")
        except Exception as ex:
            ok = f"{type(ex).__name__}: {str(ex)[:100]}"
        if ok is not True:
            R.fail("C10:set-wrong", f"declared-field struct: fitting assignments give v={list(d.v)} s={d.s!r} t={list(d.t)} ({ok})", ctx)
    # (b)
    ragged = [[[[10, 20], [30, 40]], [[50, 60], [70, 80, 90]]], [[[1, 2], [3, 4]], [[5, 6], [7]]], [[[1, 2], [3, 4]], [[5, 6]]],
              [[[1, 2], [3, 4]], [[5, 6], [7, 8]], [[9]]], [[[1, 2], [3, 4]], [[5, 6], 7]]]
    for Cls in (xo.Float64[2, 2, 2], xo.Float64[:, :, :], xo.Int32[:, 2, :]):
        buf = alloc_buffer(xo, "numpy")
        try:
            arr = Cls(np.arange(8).reshape(2, 2, 2), _buffer=buf)
            xo.String("neighbour", _buffer=buf)
        except Exception as ex:
            R.fail("C11:corpus-raises", f"{Cls.__name__}: {type(ex).__name__}: {str(ex)[:120]}", ctx)
            continue
        for rg in ragged:
            refused(f"{Cls.__name__} (2,2,2) <- nested list {rg!r} that has no shape", buf, lambda: arr._update(rg))
            refused(f"{Cls.__name__}({rg!r}): a nested list that has no shape", buf, lambda: Cls(rg, _buffer=buf))
        if [float(arr[i, j, k]) for i in range(2) for j in range(2) for k in range(2)] != [float(x) for x in range(8)]:
            R.fail("C11:error-with-side-effect", f"{Cls.__name__}: the array changed after refused updates", ctx)
    # (c) a SEQUENCE offered for a single scalar slot (array item, struct field, item of a nested array) is no value of that slot: it
    # would take the room of several.  Refused, nothing changes (O-39).  One-element containers convert to one number and are accepted.
    P = type(xo.Struct)(f"Pair{uid}", (xo.Struct,), {"x": xo.Float64, "y": xo.Float64, "k": xo.Int8, "l": xo.Int8, "q": xo.Int32[3]})
    for kind in ("numpy", "bytearray"):
        buf = alloc_buffer(xo, kind)
        try:
            a = xo.Float64[3]([1.0, 2.0, 3.0], _buffer=buf)
            b = xo.Float64[3]([4.0, 5.0, 6.0], _buffer=buf)
            p = P(x=1.0, y=2.0, k=3, l=4, q=[5, 6, 7], _buffer=buf)
            m = xo.Int16[2, 2]([[1, 2], [3, 4]], _buffer=buf)
            guard = xo.String("neighbour", _buffer=buf)
        except Exception as ex:
            R.fail("C11:corpus-raises", f"scalar-slot corpus: {type(ex).__name__}: {str(ex)[:120]}", ctx)
            continue
        for what, fn in (("Float64[3] a[2] = [7, 8, 9]", lambda: a.__setitem__(2, [7.0, 8.0, 9.0])),
                         ("Float64[3] a[0] = (7, 8)", lambda: a.__setitem__(0, (7.0, 8.0))),
                         ("Float64[3] a[1] = ndarray of 4", lambda: a.__setitem__(1, np.arange(4.0))),
                         ("struct field x = [7, 8, 9]", lambda: setattr(p, "x", [7.0, 8.0, 9.0])),
                         ("struct field k (Int8) = [1, 2]", lambda: setattr(p, "k", [1, 2])),
                         ("item of a nested array q[2] = [1, 2, 3]", lambda: p.q.__setitem__(2, [1, 2, 3])),
                         ("Int16[2,2] m[1, 1] = [9, 9, 9]", lambda: m.__setitem__((1, 1), [9, 9, 9]))):
            refused("a sequence for a single scalar slot: " + what, buf, fn)
        try:
            a[2] = [7.5]
            p.x = np.array(8.5)
            ok = ([float(v) for v in a.to_nparray()] == [1.0, 2.0, 7.5] and [float(v) for v in b.to_nparray()] == [4.0, 5.0, 6.0]
                  and float(p.x) == 8.5 and float(p.y) == 2.0 and int(p.k) == 3 and int(p.l) == 4 and [int(v) for v in p.q.to_nparray()] == [5, 6, 7]
                  and [int(m[i, j]) for i in range(2) for j in range(2)] == [1, 2, 3, 4] and guard.to_str() == "neighbour")
        except Exception as ex:
            ok = f"{type(ex).__name__}: {str(ex)[:100]}"
        if ok is not True:
            R.fail("C10:set-wrong", f"scalar-slot corpus: one-element values / neighbours read a={list(a.to_nparray())} b={list(b.to_nparray())} p.x={p.x} p.y={p.y} ({ok})", ctx)


def corpus_refused_handle(R, r):
    """C11, oracle only: a whole-array update that is REFUSED (the items need more room than was fixed at creation) leaves the HANDLE it
    was called on as it was - same values through that very handle, and a fitting item assignment through it afterwards lands in the
    array, not in the neighbour"""
    xo = common.import_xobjects()
    ctx = {"component": "heap", "corpus": "refused-handle"}
    cases = [(xo.String[:], ["aa", "bb", "cc"], ["a" * 30, "b", "c"], 1, "q", lambda a: [str(a[i]) for i in range(3)]),
             (xo.String[:, 2], [["aa", "bb"], ["cc", "dd"]], [["a", "b"], ["c", "d" * 40]], (1, 0), "zz", lambda a: [str(a[i, j]) for i in range(2) for j in range(2)]),
             (xo.Float64[:][:], [[1.0], [2.0, 3.0], []], [[1.0, 2.0, 3.0, 4.0, 5.0], [2.0], [3.0]], None, None, lambda a: [[float(q) for q in a[i].to_nparray()] for i in range(3)])]
    for kind in ("numpy", "bytearray"):
        for A, v0, big, idx, small, read in cases:
            buf = alloc_buffer(xo, kind)
            try:
                arr = A(v0, _buffer=buf)
                guard = xo.Int64[4]([7, 16, 33, 44], _buffer=buf)
                was = read(arr)
            except Exception as ex:
                R.fail("C11:corpus-raises", f"{A.__name__}: {type(ex).__name__}: {str(ex)[:120]}", ctx)
                continue
            img = bytes(buf.to_bytearray(0, buf.capacity))
            try:
                arr._update(big)
                R.fail("C11:misfit-accepted", f"{A.__name__}({v0})._update({big}) (items larger than the room fixed at creation) was accepted", ctx)
                continue
            except Exception:
                R.tags["corpus.refused-handle.refused"] += 1
            if bytes(buf.to_bytearray(0, buf.capacity)) != img:
                R.fail("C11:error-with-side-effect", f"{A.__name__}: the refused update changed the buffer", ctx)
            try:
                now = read(arr)
            except Exception as ex:
                now = f"EXC {type(ex).__name__}: {str(ex)[:80]}"
            if now != was:
                R.fail("C11:refused-update-changed-the-handle", f"{A.__name__}: x = {v0}; x._update({big}) was refused, but x now reads {str(now)[:160]}", ctx)
                continue
            if idx is not None:
                try:
                    arr[idx] = small
                    after_guard = [int(q) for q in guard.to_nparray()]
                    got = str(arr[idx])
                    if after_guard != [7, 16, 33, 44] or got != small:
                        R.fail("C11:refused-update-changed-the-handle", f"{A.__name__}: after a refused update, x[{idx}] = {small!r} through the same handle reads "
                               f"{got!r}; the neighbouring Int64[4] reads {after_guard}", ctx)
                except Exception as ex:
                    R.fail("C10:fitting-assignment-refused", f"{A.__name__}: after a refused update, x[{idx}] = {small!r}: {type(ex).__name__}: {str(ex)[:100]}", ctx)


def corpus_unionref_instances(R, r):
    """C08, oracle only (O-43): a union reference given ANOTHER union-reference object as its value (`H(u=U(a))`, `h.u = other_u`,
    items of `U[2]`) refers to what that one refers to - the same object when it lives in the holder's buffer, an independent copy in
    the holder's buffer otherwise, null for a null - wherever the two slots are"""
    xo = common.import_xobjects()
    uid = next(_rd_uid)
    ctx = {"component": "heap", "corpus": "unionref-instances"}
    A = type(xo.Struct)(f"UA{uid}", (xo.Struct,), {"x": xo.Float64})
    B = type(xo.Struct)(f"UB{uid}", (xo.Struct,), {"y": xo.Int64, "z": xo.Int64[:]})
    U = type(xo.UnionRef)(f"UU{uid}", (xo.UnionRef,), {"_reftypes": [A, B]})
    H = type(xo.Struct)(f"UH{uid}", (xo.Struct,), {"k": xo.Int64, "u": U, "us": U[2]})
    for kind in ("numpy", "bytearray"):
        try:
            buf, other = alloc_buffer(xo, kind), alloc_buffer(xo, kind)
            a = A(x=1.5, _buffer=buf)
            buf.allocate(r.choice([8, 24, 40]))                      # the two slots are at different distances from the referent
            uu, un = U(a, _buffer=buf), U(_buffer=buf)
            uo = U(B(y=7, z=[1, 2], _buffer=other), _buffer=other)
            h = H(k=1, u=uu, us=[un, uo], _buffer=buf)
            t = h.u
            if t is None or t._buffer is not buf or int(t._offset) != int(a._offset) or float(t.x) != 1.5:
                R.fail("C08:unionref-instance-not-aliased", f"H(u=U(a)): the field denotes {type(t).__name__} at {getattr(t, '_offset', None)}, a is at {int(a._offset)}", ctx)
            a.x = 2.5
            if h.u is None or float(h.u.x) != 2.5:
                R.fail("C08:unionref-instance-not-aliased", "H(u=U(a)): a write to a is not seen through the field", ctx)
            if h.us[0] is not None:
                R.fail("C08:null-not-none", f"item given a NULL union reference reads {h.us[0]!r}", ctx)
            c = h.us[1]
            if c is None or c._buffer is not buf or int(c.y) != 7 or [int(q) for q in c.z.to_nparray()] != [1, 2]:
                R.fail("C08:unionref-instance-foreign-not-copied", f"item given a union reference of another buffer reads {c!r}", ctx)
            h.u = uo
            c2 = h.u
            if c2 is None or c2._buffer is not buf or int(c2.y) != 7:
                R.fail("C08:unionref-instance-foreign-not-copied", "h.u = (union reference of another buffer): not an object of the holder's buffer with that value", ctx)
            h.u = un
            if h.u is not None:
                R.fail("C08:null-not-none", "h.u = (null union reference) does not read None", ctx)
            h.us[0] = uu
            t = h.us[0]
            if t is None or int(t._offset) != int(a._offset) or t._buffer is not buf:
                R.fail("C08:unionref-instance-not-aliased", "h.us[0] = U(a): the item does not denote a", ctx)
            R.tags["corpus.unionref-instances"] += 1
        except Exception as ex:
            R.fail("C08:corpus-raises", f"union references as values: {type(ex).__name__}: {str(ex)[:160]}", ctx)


def corpus_array_values(R, r):
    """existing ARRAYS as values (oracle only): (a) a source with spare room between its items (an item rewritten by a shorter text)
    is copied item-wise into the room planned for it - nothing outside the reserved extents changes, the size reported is the extent;
    (b) an array of a DIFFERENT class that happens to have the same generated name (item struct of the same name, fields in another
    order) and byte size is converted by field names, not copied byte for byte"""
    xo = common.import_xobjects()
    uid = next(_rd_uid)
    ctx = {"component": "heap", "corpus": "arrays-as-values"}
    A = xo.String[:]
    for cap2 in (256, 64):
        try:
            b1 = alloc_buffer(xo, "numpy")
            src = A(["x" * 30, "tail", "yy"], _buffer=b1)
            src[0] = "c"                                   # keeps its room: 40 bytes for one character
            b2 = xo.ContextCpu().new_buffer(cap2)
            b2.update_from_buffer(0, bytes([0xA5]) * cap2)
            log, orig = [], b2.allocate
            b2.allocate = lambda size, align=True, _o=orig, _l=log: (_l.append((int(_o(size) if align is True else _o(size, align)), int(size))) or _l[-1][0])
            img0 = bytes(b2.to_bytearray(0, b2.capacity))
            try:
                cp = A(src, _buffer=b2)
            finally:
                del b2.allocate
            img1 = bytes(b2.to_bytearray(0, b2.capacity))
            wild = [i for i in range(min(len(img0), len(img1))) if img0[i] != img1[i] and not any(o <= i < o + n_ for o, n_ in log)]
            if wild:
                R.fail("C03:construction-wrote-outside", f"String[:](source with spare room): bytes {wild[:6]} outside the reserved extents {log} changed", ctx)
            own = [(o, n_) for o, n_ in log if o == int(cp._offset)]
            if not own or own[0][1] != int(cp._get_size()):
                R.fail("C03:size-vs-extent", f"String[:](source with spare room): reports size {int(cp._get_size())} at {int(cp._offset)}, reserved {log}", ctx)
            if [cp[i] for i in range(3)] != ["c", "tail", "yy"]:
                R.fail("C09:copy-differs", f"String[:](source with spare room) reads {[cp[i] for i in range(3)]}", ctx)
            R.tags["corpus.array-values.spare-room"] += 1
        except Exception as ex:
            R.fail("C01:constructor-raises:" + type(ex).__name__, f"String[:](source with spare room): {type(ex).__name__}: {str(ex)[:160]}", ctx)
    # (b)
    P1 = type(xo.Struct)(f"Pt{uid}", (xo.Struct,), {"x": xo.Int64, "y": xo.Float64})
    P2 = type(xo.Struct)(f"Pt{uid}", (xo.Struct,), {"y": xo.Float64, "x": xo.Int64})
    H = type(xo.Struct)(f"PtH{uid}", (xo.Struct,), {"k": xo.Int64, "ps": P1[3]})
    vals = [(1, 1.5), (2, -2.25), (3, 1e10)]
    try:
        b1 = alloc_buffer(xo, "numpy")
        v = P2[3]([{"x": x, "y": y} for x, y in vals], _buffer=b1)
        for what, mk in (("Pt[3](other-class array of the same name)", lambda: P1[3](v, _buffer=b1)),
                         ("Holder(ps=other-class array of the same name)", lambda: H(k=7, ps=v, _buffer=b1).ps),
                         ("arr._update(other-class array of the same name)", lambda: _upd(P1[3]([{"x": 0, "y": 0.0}] * 3, _buffer=b1), v))):
            a = mk()
            got = [(int(a[i].x), float(a[i].y)) for i in range(3)]
            if got != vals:
                for key in ("C05:value-differs-from-source", "C01:value-differs"):
                    R.fail(key, f"{what}: reads {got}, the source holds {vals} (the two classes order their fields differently)", ctx)
            R.tags["corpus.array-values.same-name-other-layout"] += 1
    except Exception as ex:
        R.fail("C01:constructor-raises:" + type(ex).__name__, f"array of another class with the same name as a value: {type(ex).__name__}: {str(ex)[:160]}", ctx)


def corpus_two_accessors(R, r):
    """two differently shaped instances of ONE N-dimensional dynamic-shape array class reached through nested accessors: an accessor
    that is kept keeps reading ITS array after the other one was obtained (shape and strides belong to the accessor)"""
    xo = common.import_xobjects()
    import numpy as np
    uid = next(_rd_uid)
    ctx = {"component": "heap", "corpus": "two-accessors"}
    for M, sh1, sh2 in ((xo.Float64[:, :], (2, 3), (3, 2)), (xo.Int32[:, :, :], (2, 1, 3), (1, 3, 2)), (xo.Float64[:1, :0], (2, 3), (4, 2)),
                        (xo.Int64[:, 2], (3, 2), (1, 2))):
        try:
            S = type(xo.Struct)(f"TwoM{uid}x{len(sh1)}{M.__name__}", (xo.Struct,), {"k": xo.Int64, "a": M, "b": M})
            v1 = np.arange(int(np.prod(sh1))).reshape(sh1) + 1
            v2 = (np.arange(int(np.prod(sh2))).reshape(sh2) + 1) * 100
            buf = alloc_buffer(xo, "numpy")
            for what, get in (("struct fields", lambda: (lambda o: (o.a, lambda: o.b))(S(k=1, a=v1, b=v2, _buffer=buf))),
                              ("array items", lambda: (lambda o: (o[0], lambda: o[1]))(M[:]([v1, v2], _buffer=buf)))):
                xa, other = get()
                xb = other()
                got = [float(xa[idx]) for idx in np.ndindex(*sh1)]
                want = [float(v1[idx]) for idx in np.ndindex(*sh1)]
                got_b = [float(xb[idx]) for idx in np.ndindex(*sh2)]
                if got != want or got_b != [float(v2[idx]) for idx in np.ndindex(*sh2)]:
                    for key in ("C01:value-differs", "C06:handle-differs-from-view"):
                        R.fail(key, f"{M.__name__} {what}: x = first (shape {sh1}); y = second (shape {sh2}); x reads {got[:8]}, it was built "
                               f"from {want[:8]}; y reads {got_b[:6]}", ctx)
                R.tags["corpus.two-accessors"] += 1
        except Exception as ex:
            R.fail("C01:constructor-raises:" + type(ex).__name__, f"two accessors of {M.__name__}: {type(ex).__name__}: {str(ex)[:160]}", ctx)


def _upd(a, v):
    a._update(v)
    return a


def alloc_buffer(xo, kind):
    from . import alloc as _alloc
    b = _alloc.make_buffer(xo, kind, 1024, 1, None)
    b.update_from_buffer(0, bytes([0xA5]) * 1024)
    return b


def run_all(tier, seed, n=None):
    r = random.Random(seed * 999331 + 29)
    R = L.Run()
    n = n or {"quick": 120, "thorough": 3000}[tier]
    misuse_cases(R, r)
    corpus_cases(R, r)
    corpus_ref_struct(R, r)
    corpus_ref_defaults(R, r)
    corpus_ref_convertible(R, r)
    corpus_copy_twice(R, r)
    corpus_string_instances(R, r)
    corpus_refusals(R, r)
    corpus_refused_handle(R, r)
    corpus_unionref_instances(R, r)
    corpus_array_values(R, r)
    corpus_two_accessors(R, r)
    for _ in range(n):
        run_case(R, r)
    cases, cur = [], []
    for l in R.lines:
        if l == "reset" and cur:
            cases.append(cur)
            cur = []
        cur.append(l)
    if cur:
        cases.append(cur)
    got = common.run_driver_sharded("heap", cases, nproc=8 if n > 400 else 2)
    got = [g for part in got for g in part]
    mism = []
    for l, e, g, c in zip(R.lines, R.expect, got, R.ctxs):
        if e is None:
            continue
        if e != g:
            what = f"`{l[:140]}`: implementation `{e[:90]}` model `{g[:90]}`"
            mism.append(common.Failure("tie", "heap-tie:" + l.split()[0], f"{c.get('type', '')[:200]} value {c.get('value', '')[:100]}: {what}", c))
    return {"failures": R.fails, "mismatches": mism, "lines": len(R.lines), "distinct": len(R.distinct), "tags": dict(R.tags),
            "hist": R.hist, "samples": [f"{c.get('type', '')[:120]}" for c in R.ctxs[::max(1, len(R.ctxs) // 5)]][:6]}
