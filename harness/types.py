"""Seeded generator of type descriptors of the xobjects grammar, builder of the REAL xobjects classes
from a descriptor, S-expression printer for the Lean model, value generator and canonical deep reader.

descriptor forms:
  ('scalar', k)  k indexes SC/SCALARS          ('string',)
  ('struct', name, [(fname, t), ...])          ('array', item, shape(list of int|None), order(list))
  ('ref', t)                                   ('uref', name, [t, ...])
"""
import itertools

import numpy as np

from . import common

SC = ["f64", "f32", "i64", "u64", "i32", "u32", "i16", "u16", "i8", "u8"]
_uid = itertools.count()


def scalars():
    xo = common.import_xobjects()
    return [xo.Float64, xo.Float32, xo.Int64, xo.UInt64, xo.Int32, xo.UInt32, xo.Int16, xo.UInt16, xo.Int8, xo.UInt8]


def sexp(t):
    k = t[0]
    if k == "scalar":
        return f"(scalar {SC[t[1]]})"
    if k == "string":
        return "(string)"
    if k == "struct":
        return f"(struct {t[1]} " + " ".join(f"({n} {sexp(ft)})" for n, ft in t[2]) + ")"
    if k == "array":
        return (f"(array {sexp(t[1])} (" + " ".join("dyn" if d is None else str(d) for d in t[2]) + ") ("
                + " ".join(map(str, t[3])) + "))")
    if k == "ref":
        return f"(ref {sexp(t[1])})"
    if k == "uref":
        return f"(uref {t[1]} " + " ".join(sexp(m) for m in t[2]) + ")"
    raise ValueError(t)


class G:
    """type generator; every choice from the one PRNG"""

    def __init__(self, r, refs=True, zero_dims=True, max_nd=3, strings=True, ref_bias=False):
        self.r, self.refs, self.zero_dims, self.max_nd, self.strings = r, refs, zero_dims, max_nd, strings
        self.ref_bias = ref_bias

    def ty(self, depth, compound_only=False, target=False):
        """target=True: a reference target / union member (Struct or Array, as the grammar says)"""
        r = self.r
        kinds = []
        if not compound_only:
            kinds += ["scalar"] * 3 + (["string"] if self.strings else [])
        if depth > 0:
            kinds += ["struct"] * 2 + ["array"] * 3
            if self.refs and not target and (depth > 1 or self.ref_bias):
                kinds += ["ref", "uref"] * (3 if self.ref_bias else 1)
        elif compound_only:
            kinds += ["struct0"]
        k = r.choice(kinds)
        if k == "scalar":
            return ("scalar", r.randrange(10))
        if k == "string":
            return ("string",)
        if k == "struct0":
            return ("struct", f"S{next(_uid)}", [("f0", ("scalar", r.randrange(10)))])
        if k == "struct":
            n = r.choice([0, 1, 2, 3, 4])
            return ("struct", f"S{next(_uid)}", [(f"f{i}", self.ty(depth - 1)) for i in range(n)])
        if k == "array":
            nd = r.choice([1, 1, 2, 2, 3][: 2 * self.max_nd - 1])
            dims = [None, None, 1, 2, 3] + ([0] if self.zero_dims else [])
            shape = [r.choice(dims) for _ in range(nd)]
            order = list(range(nd))
            if r.random() < 0.5:
                r.shuffle(order)
            return ("array", self.ty(depth - 1), shape, order)
        if k == "ref":
            return ("ref", self.ty(depth - 1, compound_only=True, target=True))
        if k == "uref":
            n = r.choice([1, 2, 3])
            ms, names = [], set()
            while len(ms) < n:
                m = self.ty(depth - 1, compound_only=True, target=True)
                nm = type_name(m)
                if nm in names:
                    continue
                names.add(nm)
                ms.append(m)
            return ("uref", f"U{next(_uid)}", ms)
        raise ValueError(k)


SUFFIX = "NMOPQRSTUVWXYZABCDEFGHIJKLM"
PYNAME = ["Float64", "Float32", "Int64", "Uint64", "Int32", "Uint32", "Int16", "Uint16", "Int8", "Uint8"]


def type_name(t):
    k = t[0]
    if k == "scalar":
        return PYNAME[t[1]]
    if k == "string":
        return "String"
    if k in ("struct", "uref"):
        return t[1]
    if k == "ref":
        return "Ref" + type_name(t[1])
    if k == "array":
        out, i = [], 0
        for d in t[2]:
            if d is None:
                out.append(SUFFIX[i % len(SUFFIX)])
                i += 1
            else:
                out.append(str(d))
        return "Arr" + "x".join(out) + type_name(t[1])


def names_clash(t):
    """two different layouts under one class name inside t (array classes differing only in axis order, O-17)"""
    seen = {}

    def walk(u):
        if u[0] in ("scalar", "string"):
            return False
        nm = type_name(u)
        key = repr(u)
        if nm in seen and seen[nm] != key:
            return True
        seen[nm] = key
        if u[0] == "struct":
            return any(walk(ft) for _, ft in u[2])
        if u[0] == "array":
            return walk(u[1])
        if u[0] == "ref":
            return walk(u[1])
        if u[0] == "uref":
            return any(walk(m) for m in u[2])

    return walk(t)


def build(t, cache):
    """the real xobjects class of descriptor t"""
    xo = common.import_xobjects()
    key = repr(t)
    if key in cache:
        return cache[key]
    k = t[0]
    if k == "scalar":
        c = scalars()[t[1]]
    elif k == "string":
        c = xo.String
    elif k == "struct":
        # a third of the fields are declared through an explicit `xo.Field(type)` (same layout, same behaviour as the bare type;
        # the choice is a function of the names, so a replay builds the same class)
        import zlib
        c = type(t[1], (xo.Struct,), {n: (xo.Field(build(ft, cache)) if zlib.crc32((t[1] + "." + n).encode()) % 3 == 0 else build(ft, cache))
                                      for n, ft in t[2]})
    elif k == "array":
        item = build(t[1], cache)
        shape, order = t[2], t[3]
        if order == list(range(len(shape))):
            idx = tuple(slice(None) if d is None else d for d in shape)
        else:
            idx = tuple(slice(d, o) for d, o in zip(shape, order))
        if len(idx) == 1:
            idx = idx[0]
        c = item[idx]
    elif k == "ref":
        c = xo.Ref[build(t[1], cache)]
    elif k == "uref":
        c = type(t[1], (xo.UnionRef,), {"_reftypes": [build(m, cache) for m in t[2]]})
    else:
        raise ValueError(t)
    cache[key] = c
    return c


INTS = {2: (-2**63, 2**63 - 1), 3: (0, 2**64 - 1), 4: (-2**31, 2**31 - 1), 5: (0, 2**32 - 1),
        6: (-2**15, 2**15 - 1), 7: (0, 2**16 - 1), 8: (-128, 127), 9: (0, 255)}
STRINGS = ["", "a", "hé", "abcdefg", "abcdefgh", "x" * 17, "日本", "abcdefghijklmno", "q" * 33,
           "é" * 4, "€€€", "é" * 7, "é" * 12, "日本語のテキスト"]


def val(t, r, dynmax=3):
    """(generated data, expected canonical deep value); arrays as ('ARR', shape, nested lists)"""
    k = t[0]
    if k == "scalar":
        dt = scalars()[t[1]]._dtype
        if dt.kind == "f":
            x = r.choice([0.0, 1.5, -2.25, 1e10, float("inf"), -0.0, 3.0])
            return x, float(dt.type(x))
        lo, hi = INTS[t[1]]
        x = r.choice([lo, hi, 0, 1, r.randint(lo, hi)])
        return x, x
    if k == "string":
        if r.random() < 0.12:
            # String(capacity) reads back as the empty string; capacity 0 is excluded: it has no room for the NUL terminator
            # the documented format requires
            return ("CAP", r.choice([1, 2, 7, 8, 10, 16, 23, 23, 255, 256, 257, 300, 1000])), ""
        s = r.choice(STRINGS)
        return s, s
    if k == "struct":
        d, e = {}, {}
        for n, ft in t[2]:
            d[n], e[n] = val(ft, r, dynmax)
        return d, e
    if k == "array":
        shape = [(r.choice(range(dynmax + 1)) if d is None else d) for d in t[2]]

        def mk(dims):
            if not dims:
                return val(t[1], r, dynmax)
            items = [mk(dims[1:]) for _ in range(dims[0])]
            return [i[0] for i in items], [i[1] for i in items]

        d, e = mk(shape)
        return ("ARR", shape, d), ("ARR", shape, e)
    if k == "ref":
        if r.random() < 0.2:
            return None, None
        return val(t[1], r, dynmax)
    if k == "uref":
        if r.random() < 0.2:
            return None, None
        i = r.randrange(len(t[2]))
        d, e = val(t[2][i], r, dynmax)
        return ("U", i, d), ("U", i, e)


def to_py(t, d, cache, form="py"):
    """constructor argument from generated data; form: py | nd (ndarray where possible) | ndobj"""
    k = t[0]
    if k == "string" and isinstance(d, tuple):
        return d[1]
    if k in ("scalar", "string"):
        return d
    if k == "struct":
        return {n: to_py(ft, d[n], cache, form) for n, ft in t[2]}
    if k == "array":
        _, shape, data = d

        def conv(x, dims):
            if not dims:
                return to_py(t[1], x, cache, form)
            return [conv(y, dims[1:]) for y in x]

        lst = conv(data, shape)
        if form == "nd" and t[1][0] == "scalar":
            return np.array(lst, dtype=scalars()[t[1][1]]._dtype).reshape(shape)
        if form == "ndobj" or (len(shape) > 1 and t[1][0] != "scalar" and form == "nd"):
            a = np.empty(shape, dtype=object)
            for idx in np.ndindex(*shape):
                x = lst
                for i in idx:
                    x = x[i]
                a[idx] = x
            return a
        return lst
    if k == "ref":
        return None if d is None else to_py(t[1], d, cache, form)
    if k == "uref":
        if d is None:
            return None
        _, i, dd = d
        return (build(t[2][i], cache).__name__, to_py(t[2][i], dd, cache, form))


def has_zero_nd(t, d):
    """N-D plain-list value with a zero dimension somewhere (O-23: not expressible as nested lists)"""
    k = t[0]
    if k == "struct":
        return any(has_zero_nd(ft, d[n]) for n, ft in t[2])
    if k == "array":
        _, shape, data = d
        if len(shape) > 1 and 0 in shape:
            return True

        def walk(x, dims):
            if not dims:
                return has_zero_nd(t[1], x)
            return any(walk(y, dims[1:]) for y in x)

        return walk(data, shape)
    if k == "ref":
        return d is not None and has_zero_nd(t[1], d)
    if k == "uref":
        return d is not None and has_zero_nd(t[2][d[1]], d[2])
    return False


def deep(t, obj, cache):
    """canonical deep value of a real xobject through its public accessors"""
    k = t[0]
    if k == "scalar":
        return float(obj) if scalars()[t[1]]._dtype.kind == "f" else int(obj)
    if k == "string":
        return obj
    if k == "struct":
        return {n: deep(ft, getattr(obj, n), cache) for n, ft in t[2]}
    if k == "array":
        shape = [int(x) for x in obj._shape]

        def rd(prefix, dims):
            if not dims:
                return deep(t[1], obj[tuple(prefix)] if len(prefix) > 1 else obj[prefix[0]], cache)
            return [rd(prefix + [i], dims[1:]) for i in range(dims[0])]

        return ("ARR", shape, rd([], shape))
    if k == "ref":
        return None if obj is None else deep(t[1], obj, cache)
    if k == "uref":
        if obj is None:
            return None
        names = [build(m, cache).__name__ for m in t[2]]
        i = names.index(obj.__class__.__name__)
        return ("U", i, deep(t[2][i], obj, cache))


def same(a, b):
    """deep equality that treats NaN == NaN and -0.0 != 0.0 by bit pattern for floats"""
    if isinstance(a, float) and isinstance(b, float):
        return np.float64(a).tobytes() == np.float64(b).tobytes()
    if type(a) != type(b):
        if isinstance(a, (int, float)) and isinstance(b, (int, float)):
            return a == b
        return False
    if isinstance(a, dict):
        return a.keys() == b.keys() and all(same(a[k], b[k]) for k in a)
    if isinstance(a, (list, tuple)):
        return len(a) == len(b) and all(same(x, y) for x, y in zip(a, b))
    return a == b


def kind_hist(t, h):
    h[t[0]] = h.get(t[0], 0) + 1
    if t[0] == "struct":
        h["struct.fields=%d" % min(len(t[2]), 4)] = h.get("struct.fields=%d" % min(len(t[2]), 4), 0) + 1
        for _, ft in t[2]:
            kind_hist(ft, h)
    elif t[0] == "array":
        tag = "array.nd=%d.%s.%s" % (len(t[2]), "dynshape" if None in t[2] else "static",
                                     "C" if t[3] == sorted(t[3]) else "nonC")
        h[tag] = h.get(tag, 0) + 1
        kind_hist(t[1], h)
    elif t[0] == "ref":
        kind_hist(t[1], h)
    elif t[0] == "uref":
        for m in t[2]:
            kind_hist(m, h)
    return h
