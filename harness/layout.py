"""Layout component (C01, C03, C05, C06, C10, C11): random types x values x input forms x placements.

For every case the REAL xobjects object is constructed in a poison-filled buffer with prior allocations and frees,
with `buffer.allocate` wrapped (on the harness's own buffer object) so that the allocations made during the
construction are known.  Protocol lines for the Lean model (`lay` component) carry the same history; the model must
reproduce offset, size, capacity and the WHOLE buffer image, the deep value through the constructor handle and a
fresh view, element reads, and every assignment with the image after it (also on the error path).

Model-independent oracles (failing-input search):
  C01  deep value read through every accessor == the value the generator intended
  C03  bytes outside (extent ∪ extents allocated during the operation) unchanged; size == extent; parts nested, siblings disjoint
  C05  a decoder written only from the documentation recovers the value from the raw bytes; parts on slot boundaries
  C06  a view from (buffer, offset) has the same value / shape / strides / size, and writes through either are seen by both
  C10  a fitting assignment changes exactly that element
  C11  operations that cannot be honoured raise and leave every byte unchanged
"""
import collections
import itertools
import random
import sys

import numpy as np

from . import common, types as T

EXC = {"IndexError": "Index", "ValueError": "Value", "TypeError": "Type", "KeyError": "Key", "AttributeError": "Attribute",
       "MemoryError": "Memory", "AssertionError": "Assertion", "NotImplementedError": "NotImplemented"}


def exc_name(ex):
    return EXC.get(type(ex).__name__, type(ex).__name__)


# ------------------------------------------------------------------------------------------ values as S-expressions

def bits_of(t, x):
    dt = T.scalars()[t[1]]._dtype
    with np.errstate(all="ignore"):
        return int.from_bytes(dt.type(x).tobytes(), "little")


def vsexp(t, d, cache, form="py"):
    """(S-expression for the model, python constructor argument) of generated data d"""
    k = t[0]
    if k == "scalar":
        dt = T.scalars()[t[1]]._dtype
        # plain Python data is plain: `int` / `float` objects (lists of them are what NumPy's own type inference sees when the
        # library hands a list to it); the NumPy scalar of the field's type is kept for the other input forms
        return f"(bits {bits_of(t, d)})", ((float(d) if dt.kind == "f" else int(d)) if form == "py" else dt.type(d))
    if k == "string":
        if isinstance(d, tuple):
            return f"(cap {d[1]})", d[1]
        return (f"(str {d.encode().hex()})" if d else "(str)"), d
    if k == "struct":
        parts, arg = [], {}
        for n, ft in t[2]:
            s, a = vsexp(ft, d[n], cache, form)
            parts.append(f"({n} {s})")
            arg[n] = a
        return "(dict " + " ".join(parts) + ")", arg
    if k == "array":
        _, shape, data = d
        if form in ("nd", "ndown", "ndf") and t[1][0] == "scalar":
            dt = T.scalars()[t[1][1]]._dtype
            arr = np.array(data, dtype=dt).reshape(shape)
            flat = [int.from_bytes(x.tobytes(), "little") for x in arr.reshape(-1)]
            # the same logical array in another MEMORY layout: C order, Fortran order, or laid out exactly like the xobject array
            # itself (its own axis order) - what `other.to_nparray()` or np.asfortranarray(...) hand in
            lay = (sum(flat) + len(shape)) % 3 if len(shape) > 1 and arr.size else 0
            lay = {"ndown": 2, "ndf": 1}.get(form, lay)
            if lay == 1:
                arr = np.asfortranarray(arr)
            elif lay == 2:
                order = [int(a) for a in t[3]]
                arr = np.ascontiguousarray(arr.transpose(order)).transpose(np.argsort(order))
            # ... or held in the other BYTE order (data read from a big-endian file): the values are the same
            if dt.itemsize > 1 and (sum(flat) + 2 * len(shape)) % 4 == 0:
                arr = arr.astype(dt.newbyteorder(">" if sys.byteorder == "little" else "<"))
            return "(nd (" + " ".join(map(str, shape)) + ") " + " ".join(f"(bits {b})" for b in flat) + ")", arr

        def conv(x, dims):
            if not dims:
                return vsexp(t[1], x, cache, form)
            subs = [conv(y, dims[1:]) for y in x]
            return ("(list " + " ".join(s for s, _ in subs) + ")" if subs else "(list)"), [a for _, a in subs]

        s, a = conv(data, shape)
        if form == "ndobj" and len(shape) >= 1 and t[1][0] != "scalar" and 0 not in shape:
            o = np.empty(shape, dtype=object)
            for idx in np.ndindex(*shape):
                x = a
                for i in idx:
                    x = x[i]
                o[idx] = x
            a = o
        return s, a
    if k == "ref":
        if d is None:
            return "(none)", None
        return vsexp(t[1], d, cache, form)
    if k == "uref":
        if d is None:
            return "(none)", None
        _, i, dd = d
        s, a = vsexp(t[2][i], dd, cache, form)
        name = T.build(t[2][i], cache).__name__
        return f"(tagged {name} {s})", (name, a)
    raise ValueError(t)


def deep_str(t, obj, cache):
    """canonical deep value string, the format of the model's `deep`"""
    k = t[0]
    if k == "scalar":
        return "b" + str(bits_of(t, obj))
    if k == "string":
        return "s" + obj.encode().hex()
    if k == "struct":
        return "{" + ",".join(f"{n}={deep_str(ft, getattr(obj, n), cache)}" for n, ft in t[2]) + "}"
    if k == "array":
        shape = [int(x) for x in obj._shape]
        items = [deep_str(t[1], obj[idx if len(idx) > 1 else idx[0]], cache) for idx in itertools.product(*[range(s) for s in shape])]
        return "[" + " ".join(map(str, shape)) + "|" + ",".join(items) + "]"
    if k == "ref":
        return "N" if obj is None else deep_str(t[1], obj, cache)
    if k == "uref":
        if obj is None:
            return "N"
        names = [T.build(m, cache).__name__ for m in t[2]]
        i = names.index(obj.__class__.__name__)
        return f"U{i}:" + deep_str(t[2][i], obj, cache)


def expect_str(t, e, cache):
    """the same canonical string computed from the generator's intended value (no xobjects involved)"""
    k = t[0]
    if k == "scalar":
        return "b" + str(bits_of(t, e))
    if k == "string":
        return "s" + e.encode().hex()
    if k == "struct":
        return "{" + ",".join(f"{n}={expect_str(ft, e[n], cache)}" for n, ft in t[2]) + "}"
    if k == "array":
        _, shape, data = e
        items = []
        for idx in itertools.product(*[range(s) for s in shape]):
            x = data
            for i in idx:
                x = x[i]
            items.append(expect_str(t[1], x, cache))
        return "[" + " ".join(map(str, shape)) + "|" + ",".join(items) + "]"
    if k == "ref":
        return "N" if e is None else expect_str(t[1], e, cache)
    if k == "uref":
        return "N" if e is None else f"U{e[1]}:" + expect_str(t[2][e[1]], e[2], cache)


# --------------------------------------------------------------------------- decoder written only from the documentation

def slot(n):
    return (n + 7) // 8 * 8


def static_size(t):
    """class-level size from the documented rules, None if dynamic"""
    k = t[0]
    if k == "scalar":
        return T.scalars()[t[1]]._dtype.itemsize
    if k == "string":
        return None
    if k == "ref":
        return 8
    if k == "uref":
        return 16
    if k == "struct":
        tot = 0
        for _, ft in t[2]:
            s = static_size(ft)
            if s is None:
                return None
            tot += slot(s)
        return tot
    if k == "array":
        s = static_size(t[1])
        if s is None or None in t[2]:
            return None
        return slot(s * int(np.prod(t[2])) if t[2] else s)


def i64(mem, off):
    return int.from_bytes(mem[off:off + 8], "little", signed=True)


def mem_order_strides(shape, order, isz):
    """strides (bytes) per axis for an array whose axes are laid out in `order` (first = slowest)"""
    st = [0] * len(shape)
    acc = isz
    for ax in reversed(order):
        st[ax] = acc
        acc *= shape[ax]
    return st


class DocError(Exception):
    pass


def doc_decode(t, mem, off, parts=None, base=None):
    """canonical string of the value stored at `off`, following ONLY Architecture.md / types.rst / the property text.
    `parts` collects (offset relative to the outermost object, type kind) of every compound or dynamic part"""
    k = t[0]
    if base is None:
        base = off
    if parts is not None and k not in ("scalar",):
        parts.append((off - base, k))
    if k == "scalar":
        dt = T.scalars()[t[1]]._dtype
        return "b" + str(int.from_bytes(mem[off:off + dt.itemsize], "little"))
    if k == "string":
        size = i64(mem, off)
        if size < 8 or off + size > len(mem):
            raise DocError(f"string size word {size} at {off}")
        data = bytes(mem[off + 8: off + size])
        z = data.find(b"\x00")
        if z < 0:
            raise DocError("string not NUL-terminated")
        return "s" + data[:z].hex()
    if k == "ref":
        rel = i64(mem, off)
        if rel == -2**63:
            return "N"
        return doc_decode(t[1], mem, off + rel, None, None)
    if k == "uref":
        rel, tid = i64(mem, off), i64(mem, off + 8)
        if rel == -2**63:
            if tid != -1:
                raise DocError(f"null union reference with member index {tid}")
            return "N"
        if not 0 <= tid < len(t[2]):
            raise DocError(f"member index {tid}")
        return f"U{tid}:" + doc_decode(t[2][tid], mem, off + rel, None, None)
    if k == "struct":
        if static_size(t) is not None:
            out, o = [], 0
            for n, ft in t[2]:
                out.append(f"{n}=" + doc_decode(ft, mem, off + o, parts, base))
                o += slot(static_size(ft))
            return "{" + ",".join(out) + "}"
        size = i64(mem, off)
        statics = [(n, ft) for n, ft in t[2] if static_size(ft) is not None]
        dyns = [(n, ft) for n, ft in t[2] if static_size(ft) is None]
        pos, o = {}, 8
        for n, ft in statics:
            pos[n] = o
            o += slot(static_size(ft))
        table = o                       # offsets of the 2nd.. dynamic fields
        first = table + 8 * (len(dyns) - 1)
        for j, (n, ft) in enumerate(dyns):
            pos[n] = first if j == 0 else i64(mem, off + table + 8 * (j - 1))
        for n, _ in t[2]:
            if not 0 <= pos[n] < max(size, 1) + (0 if size else 1):
                raise DocError(f"field {n} at {pos[n]} outside the struct of size {size}")
        return "{" + ",".join(f"{n}=" + doc_decode(ft, mem, off + pos[n], parts, base) for n, ft in t[2]) + "}"
    if k == "array":
        it, cshape, order = t[1], t[2], t[3]
        isz = static_size(it)
        nd = len(cshape)
        if isz is not None and None not in cshape:
            shape, strides, data = list(cshape), mem_order_strides(list(cshape), order, isz), 0
        else:
            o = 8
            shape = []
            for d in cshape:
                if d is None:
                    shape.append(i64(mem, off + o))
                    o += 8
                else:
                    shape.append(d)
            if any(s < 0 or s > 10**6 for s in shape):
                raise DocError(f"dimensions {shape}")
            unit = isz if isz is not None else 8
            if nd > 1 and None in cshape:
                strides = [i64(mem, off + o + 8 * j) for j in range(nd)]
                o += 8 * nd
                if strides != mem_order_strides(shape, order, unit) and int(np.prod(shape)) > 0:
                    raise DocError(f"stored strides {strides} are not those of shape {shape} in axis order {order}")
            else:
                strides = mem_order_strides(shape, order, unit)
            data = o
        items = []
        n_items = int(np.prod(shape)) if shape else 1
        for idx in itertools.product(*[range(s) for s in shape]):
            rel = data + sum(i * s for i, s in zip(idx, strides))
            if isz is not None:
                items.append(doc_decode(it, mem, off + rel, parts, base))
            else:
                # table of item offsets, arranged in the array's memory order; entries relative to the array start
                io = i64(mem, off + rel)
                if not data + 8 * n_items <= io:
                    raise DocError(f"item offset {io} of index {idx} points into the header/table")
                items.append(doc_decode(it, mem, off + io, parts, base))
        return "[" + " ".join(map(str, shape)) + "|" + ",".join(items) + "]"
    raise ValueError(t)


# --------------------------------------------------------------------------------------------------- placements

class Traced:
    """a real buffer whose allocate() is wrapped on the instance (no repo change) to record what an operation allocates"""

    def __init__(self, buf):
        self.buf = buf
        self.log = []
        orig = buf.allocate

        def allocate(size, align=True, _orig=orig, _log=self.log):
            o = _orig(size, align) if align is not True else _orig(size)
            _log.append((int(o), int(size)))
            return o

        buf.allocate = allocate

    def take(self):
        out = list(self.log)
        del self.log[:]
        return out


def make_placement(r, ops, exp, kinds=("numpy",), min_cap=0):
    """a fresh real buffer with a random history; appends the protocol lines; returns (traced buffer, ctx)"""
    xo = common.import_xobjects()
    cap = max(r.choice([0, 8, 64, 256, 1024]), min_cap)
    al = r.choice([1, 2, 4, 8, 8, 16, 64])
    ctx = xo.ContextCpu()
    buf = ctx.new_buffer(cap)
    buf.default_alignment = al
    ops.append(f"buf {cap} {al}")
    exp.append("ok")
    if cap:
        buf.update_from_buffer(0, bytes([0xA5]) * cap)
        ops.append(f"fill 0 {cap} 165")
        exp.append("ok")
    pre = []
    for _ in range(r.randrange(3)):
        sz = r.randrange(1, 40)
        o = buf.allocate(sz)
        buf.update_from_buffer(o, bytes([0x5A]) * sz)
        pre.append((o, sz))
        ops.append(f"alloc {sz}")
        exp.append(f"off {o}")
        ops.append(f"fill {o} {sz} 90")
        exp.append("ok")
    live = list(pre)
    if pre and r.random() < 0.5:
        o, sz = pre[0]
        buf.free(o, sz)
        live.remove((o, sz))
        ops.append(f"free {o} {sz}")
        exp.append("ok")
    return Traced(buf), ctx, live


def image(buf):
    return bytes(buf.to_bytearray(0, buf.capacity)) if buf.capacity else b""


def new_case(r, refs, max_depth=3, ref_bias=False):
    g = T.G(r, refs=refs, ref_bias=ref_bias)
    while True:
        t = g.ty(r.choice([1, 2, 2, 3][: max_depth + 1]), compound_only=True)
        if t[0] in ("ref", "uref") or T.names_clash(t):
            continue            # a bare Ref / UnionRef slot is not an object of its own
        return t


def nested_parts(t, obj, cache, base, out, path=()):
    """(path, offset relative to base, size) of every compound nested part reachable without following references"""
    k = t[0]
    if k == "struct":
        for n, ft in t[2]:
            if ft[0] in ("struct", "array"):
                sub = getattr(obj, n)
                out.append((path + (n,), int(sub._offset) - base, int(sub._get_size()), len(path) + 1))
                nested_parts(ft, sub, cache, base, out, path + (n,))
    elif k == "array" and t[1][0] in ("struct", "array"):
        shape = [int(x) for x in obj._shape]
        for idx in itertools.islice(itertools.product(*[range(s) for s in shape]), 12):
            sub = obj[idx if len(idx) > 1 else idx[0]]
            out.append((path + (idx,), int(sub._offset) - base, int(sub._get_size()), len(path) + 1))
            nested_parts(t[1], sub, cache, base, out, path + (idx,))


# ----------------------------------------------------------------------------------------------------- the cases

def pstr(path):
    return "/".join(("f:" + s[1]) if s[0] == "f" else ("i:" + ",".join(map(str, s[1]))) for s in path) or "-"


def value_paths(t, e, prefix=()):
    """(path, slot type, intended sub-value) of every slot incl. compound nodes; not through None"""
    yield prefix, t, e
    k = t[0]
    if k == "struct":
        for n, ft in t[2]:
            yield from value_paths(ft, e[n], prefix + (("f", n),))
    elif k == "array":
        _, shape, data = e
        for idx in itertools.product(*[range(s) for s in shape]):
            x = data
            for i in idx:
                x = x[i]
            yield from value_paths(t[1], x, prefix + (("i", idx),))
    elif k == "ref":
        if e is not None:
            for p, tt, ee in value_paths(t[1], e, prefix):
                if p != prefix:
                    yield p, tt, ee
    elif k == "uref":
        if e is not None:
            for p, tt, ee in value_paths(t[2][e[1]], e[2], prefix):
                if p != prefix:
                    yield p, tt, ee


def nav(obj, path):
    cur = obj
    for s in path:
        cur = getattr(cur, s[1]) if s[0] == "f" else cur[s[1] if len(s[1]) > 1 else s[1][0]]
    return cur


def nav_set(obj, path, value):
    cont = nav(obj, path[:-1])
    s = path[-1]
    if s[0] == "f":
        setattr(cont, s[1], value)
    else:
        cont[s[1] if len(s[1]) > 1 else s[1][0]] = value


def replace_at(t, e, path, new):
    """intended value with the slot at `path` replaced"""
    if not path:
        return new
    s = path[0]
    k = t[0]
    if k == "ref":
        return replace_at(t[1], e, path, new)
    if k == "uref":
        return ("U", e[1], replace_at(t[2][e[1]], e[2], path, new))
    if s[0] == "f":
        ft = dict(t[2])[s[1]]
        out = dict(e)
        out[s[1]] = replace_at(ft, e[s[1]], path[1:], new)
        return out
    _, shape, data = e

    def rep(x, idx):
        if not idx:
            return replace_at(t[1], x, path[1:], new)
        return [rep(y, idx[1:]) if i == idx[0] else y for i, y in enumerate(x)]

    return ("ARR", shape, rep(data, list(s[1])))


def caches_str(obj):
    """the structure a handle caches, as int lists"""
    out = [f"size={int(obj._get_size())}"]
    if hasattr(obj, "_shape"):
        out.append("shape=" + ",".join(str(int(x)) for x in obj._shape))
        out.append("strides=" + ",".join(str(int(x)) for x in obj._strides))
    return " ".join(out)


class Run:
    def __init__(self):
        self.lines, self.expect, self.ctxs = [], [], []
        self.fails, self.tags = [], collections.Counter()
        self.hist = {}
        self.distinct = set()

    def fail(self, key, what, ctx):
        self.fails.append(common.Failure("oracle", key, what, ctx))


def case_ctx(t, d, form, ops):
    return {"component": "lay", "type": T.sexp(t), "value": repr(d)[:3000], "form": form, "ops": list(ops)}


def run_case(R, r, refs, mutate=True, forms=("py", "py", "nd", "ndobj")):
    t = new_case(r, refs)
    d, e = T.val(t, r)
    form = r.choice(forms)
    exec_case(R, r, t, d, e, form, mutate)


def exec_case(R, r, t, d, e, form, mutate=True, min_cap=0):
    xo = common.import_xobjects()
    cache = {}
    try:
        cls = T.build(t, cache)
    except Exception as ex:
        R.tags["build-exc:" + type(ex).__name__] += 1
        return
    if T.has_zero_nd(t, d) and form != "nd":
        R.tags["skip.zero-dim-list"] += 1     # O-23: N-D values with a zero dimension are not expressible as nested lists
        return
    if form == "nd" and T.has_zero_nd(t, d) and not (t[0] == "array" and t[1][0] == "scalar"):
        R.tags["skip.zero-dim-list"] += 1
        return
    vs, arg = vsexp(t, d, cache, form)
    ops, exp = [], []
    try:
        tb, ctx_, live = make_placement(r, ops, exp, min_cap=min_cap)
    except Exception as ex:
        # the raw allocations of the placement already misbehave (a region beyond the capacity, ...): the allocator's properties
        # (C04/C12) are checked by their own component; this case cannot be built
        R.tags["placement-raises:" + type(ex).__name__] += 1
        R.fail("C04:placement-raises:" + type(ex).__name__, f"prior allocations of the placement: {type(ex).__name__}: {str(ex)[:160]}",
               {"component": "lay", "ops": list(ops)})
        return
    buf = tb.buf
    before = image(buf)
    cap0 = buf.capacity
    tb.take()
    cctx = case_ctx(t, d, form, ops)
    sx = T.sexp(t)
    R.distinct.add(sx + vs)
    T.kind_hist(t, R.hist)
    R.tags["form." + form] += 1
    try:
        obj = cls(*arg, _buffer=buf) if t[0] == "uref" and arg is not None else cls(arg, _buffer=buf)
    except Exception as ex:
        R.tags[f"ctor-exc:{type(ex).__name__}"] += 1
        R.fail("C01:constructor-raises:" + type(ex).__name__, f"{sx[:200]} from {form} value {repr(d)[:200]}: {type(ex).__name__}: {str(ex)[:200]}", cctx)
        return
    allocs = tb.take()
    after = image(buf)
    off = int(obj._offset)
    size = int(obj._get_size()) if hasattr(obj, "_get_size") else int(cls._size)
    ops.append(f"type T {sx}")
    exp.append("ok")
    ops.append(f"new T h {vs}")
    exp.append(f"off {off} size {size} cap {buf.capacity} mem {after.hex()}")
    want = expect_str(t, e, cache)
    # ---------------- C03: frame, size, nesting
    extents = [(o, n) for o, n in allocs]
    own = [(o, n) for o, n in allocs if o == off]
    if not own or own[0][1] != size:
        R.fail("C03:size-vs-extent", f"{sx[:200]}: reports size {size} at {off} but reserved {own} (allocations {allocs})", cctx)
    allowed = bytearray(len(after))
    for o, n in extents:
        for i in range(o, min(o + n, len(after))):
            allowed[i] = 1
    grown = after[:len(before)]
    bad = [i for i in range(len(before)) if before[i] != grown[i] and not allowed[i]]
    if bad:
        R.fail("C03:writes-outside", f"{sx[:200]} value {repr(d)[:160]}: constructing at {off} (size {size}) changed bytes {bad[:8]} outside the extents it reserved {extents}", cctx)
    for o, n in live:
        if after[o:o + n] != before[o:o + n]:
            R.fail("C03:neighbour-overwritten", f"{sx[:200]}: live neighbour [{o},{o + n}) changed", cctx)
    try:
        parts = []
        nested_parts(t, obj, cache, off, parts)
        for p, po, ps, depth in parts:
            if po < 0 or po + ps > size:
                R.fail("C03:part-outside-parent", f"{sx[:200]} value {repr(d)[:120]}: part {p} occupies [{po},{po + ps}) of an object of size {size}", cctx)
                break
        top = sorted((po, ps, p) for p, po, ps, depth in parts if depth == 1)
        for (a, an, ap), (b, bn, bp) in zip(top, top[1:]):
            if a + an > b:
                R.fail("C03:siblings-overlap", f"{sx[:200]}: parts {ap} [{a},{a + an}) and {bp} [{b},{b + bn}) overlap", cctx)
                break
    except Exception:
        pass  # reading problems are reported under C01/C06
    # ---------------- C01: deep read through the handle
    try:
        got = deep_str(t, obj, cache)
        if got != want:
            R.fail("C01:value-differs", f"{sx[:200]} from {form}: wrote {want[:160]}, the handle reads {got[:160]}", cctx)
        else:
            R.tags["C01.ok"] += 1
    except Exception as ex:
        got = "EXC " + exc_name(ex)
        R.fail("C01:read-raises:" + type(ex).__name__, f"{sx[:200]} from {form} value {repr(d)[:160]}: reading back raises {type(ex).__name__}: {str(ex)[:160]}", cctx)
    ops.append("deep h -")
    exp.append("val " + got if not got.startswith("EXC") else None)
    # ---------------- C06: view from (buffer, offset)
    view = None
    try:
        view = cls._from_buffer(buf, off)
        gv = deep_str(t, view, cache)
        if gv != got and not got.startswith("EXC"):
            R.fail("C06:view-value-differs", f"{sx[:200]}: handle reads {got[:140]}, a view of the same bytes reads {gv[:140]}", cctx)
        if hasattr(obj, "_get_size") and caches_str(view) != caches_str(obj):
            R.fail("C06:view-structure-differs", f"{sx[:200]}: handle {caches_str(obj)} vs view {caches_str(view)}", cctx)
        R.tags["C06.view"] += 1
    except Exception as ex:
        R.fail("C06:view-raises:" + type(ex).__name__, f"{sx[:200]} value {repr(d)[:160]}: reading through a view raises {type(ex).__name__}: {str(ex)[:160]}", cctx)
    # ---------------- C05: documentation-only decoder on the raw bytes
    try:
        parts5 = []
        dd = doc_decode(t, after, off, parts5)
        if dd != want:
            R.fail("C05:decoded-differs", f"{sx[:200]} from {form}: the documented format decodes to {dd[:150]}, written was {want[:150]}", cctx)
        mis = [(po, kk) for po, kk in parts5 if po % 8]
        if mis:
            R.fail("C05:part-off-slot", f"{sx[:200]} value {repr(d)[:120]}: parts at {mis[:4]} (relative to the object) are not on 8-byte slots", cctx)
        R.tags["C05.decoded"] += 1
    except DocError as ex:
        R.fail("C05:not-decodable", f"{sx[:200]} from {form} value {repr(d)[:120]}: bytes do not follow the documented layout: {ex}", cctx)
    except Exception as ex:
        R.fail("C05:not-decodable", f"{sx[:200]} from {form}: decoder error {type(ex).__name__} {str(ex)[:100]}", cctx)
    # ---------------- element reads, bad indices, assignments (model tie + C10/C11 oracles)
    if mutate and view is not None:
        mutate_case(R, r, t, d, e, obj, view, cls, cache, buf, ops, exp, cctx, sx)
    # ---------------- C01: "wherever in that buffer it lands" - a LATER object built in the same buffer (into a hole left by the
    # placement's frees, or behind the object; any default alignment) must not change what this object reads
    try:
        xo = common.import_xobjects()
        was = deep_str(t, obj, cache)
        nn = r.choice([1, 2, 3, 4, 5])
        later = xo.Float64[nn]([float(i + 7) for i in range(nn)], _buffer=buf)
        now = deep_str(t, obj, cache)
        if now != was:
            R.fail("C01:value-changed-by-later-construction",
                   f"{sx[:200]} at {off} (size {size}): after Float64[{nn}] was built at {later._offset} in the same buffer (default "
                   f"alignment {buf.default_alignment}) the object reads {now[:140]}, before {was[:140]}", cctx)
        if [float(x) for x in later] != [float(i + 7) for i in range(nn)]:
            R.fail("C01:value-differs", f"Float64[{nn}] built at {later._offset} after {sx[:160]} reads {[float(x) for x in later]}", cctx)
        R.tags["C01.later-object"] += 1
    except Exception as ex:
        R.tags["later-object-exc:" + type(ex).__name__] += 1
    k0 = len(R.lines)
    R.lines += ops
    R.expect += exp
    R.ctxs += [cctx] * len(ops)
    cctx["first_line"] = k0


def mutate_case(R, r, t, d, e, obj, view, cls, cache, buf, ops, exp, cctx, sx):
    allp = [p for p in value_paths(t, e) if p[0]]
    if not allp:
        return
    cur_e = e
    kept = {}                       # nested container handles obtained once and reused (also across buffer growth)
    arrp = [p for p in allp if p[1][0] == "array"]        # whole nested arrays: the subject of `Lay.updateArr` (C11_array_update_*)
    for _ in range(r.randrange(1, 7)):
        path, st, sub = r.choice(arrp) if arrp and r.random() < 0.25 else r.choice(allp)
        kind = r.choice(["get", "badidx", "set", "set", "set", "setmisfit", "badlen", "grow"])
        h = r.choice([obj, view])
        hname = "handle" if h is obj else "view"
        if kind == "grow":
            # an allocation that forces the buffer to grow (storage is relocated); handles and views stay in use afterwards
            n = buf.capacity + r.choice([1, 8, 64])
            o = buf.allocate(n)
            ops.append(f"alloc {n}")
            exp.append(f"off {o}")
            R.tags["op.grow"] += 1
            try:
                now = deep_str(t, obj, cache)
                if now != expect_str(t, cur_e, cache):
                    R.fail("C10:value-changed-by-growth", f"{sx[:200]}: after the buffer grew the object reads {now[:140]}", cctx)
            except Exception as ex:
                R.fail("C10:read-after-growth-raises", f"{sx[:200]}: {type(ex).__name__} {str(ex)[:100]}", cctx)
            continue
        if kind == "get":
            try:
                val = "val " + deep_str(st, nav(h, path), cache)
            except Exception as ex:
                val = "err " + exc_name(ex)
            ops.append(f"deep h {pstr(path)}")
            exp.append(val)
            R.tags["op.get"] += 1
        elif kind == "badidx":
            ip = [k for k, s in enumerate(path) if s[0] == "i"]
            if not ip:
                continue
            k = ip[-1]
            idx = list(path[k][1])
            j = r.randrange(len(idx))
            try:
                shape = [int(q) for q in nav(obj, path[:k])._shape]
            except Exception:
                continue
            if r.random() < 0.3:
                idx = idx + [r.choice([0, 0, 1, 5])]          # more coordinates than the array has axes: no such element
                R.tags["op.badidx.too-many-coordinates"] += 1
            else:
                idx[j] = r.choice([-1, shape[j], shape[j] + 3, -shape[j] - 1])
            p2 = path[:k] + (("i", tuple(idx)),)
            before = image(buf)
            try:
                nav(h, p2)
                val = "val ?"
                R.fail("C11:bad-index-accepted", f"{sx[:200]}: reading index {tuple(idx)} of an array of shape {shape} through the {hname} succeeds", dict(cctx, path=pstr(p2)))
            except Exception as ex:
                val = "err " + exc_name(ex)
            # also as an assignment target
            ops.append(f"deep h {pstr(p2)}")
            exp.append(val if val != "val ?" else None)
            R.tags["op.badidx"] += 1
            if image(buf) != before:
                R.fail("C11:bad-index-side-effect", f"{sx[:200]}: refused index {tuple(idx)} changed the buffer", cctx)
            if st[0] == "scalar" and len(p2) == len(path):
                # the same index as an ASSIGNMENT target: must raise and leave every byte as it was
                ndv, _ne = T.val(st, r)
                vsb, argb = vsexp(st, ndv, cache, "py")
                try:
                    nav_set(h, p2, argb)
                    resb = "ok"
                    R.fail("C11:bad-index-assignment-accepted", f"{sx[:200]}: assigning to index {tuple(idx)} of an array of shape {shape} "
                           f"through the {hname} succeeds", dict(cctx, path=pstr(p2)))
                except Exception as ex:
                    resb = "err " + exc_name(ex)
                ops.append(f"set h {pstr(p2)} {vsb}")
                exp.append(f"{resb} cap {buf.capacity} mem {image(buf).hex()}")
                R.tags["op.badidx.set"] += 1
                if image(buf) != before:
                    R.fail("C11:bad-index-side-effect", f"{sx[:200]}: the refused assignment to index {tuple(idx)} changed the buffer", cctx)
                    break
        else:
            if st[0] in ("ref", "uref"):
                continue
            nd_, ne = T.val(st, r)
            if st[0] == "array" and kind == "set":
                _, shape, _x = sub

                def mk(dims):
                    if not dims:
                        return T.val(st[1], r)
                    items = [mk(dims[1:]) for _ in range(dims[0])]
                    return [i[0] for i in items], [i[1] for i in items]

                a, b = mk(shape)
                nd_, ne = ("ARR", shape, a), ("ARR", shape, b)
            if kind == "badlen":
                if st[0] != "array":
                    continue
                _, shape, _x = sub
                shape2 = list(shape)
                shape2[r.randrange(len(shape2))] += r.choice([1, 2])

                def mk2(dims):
                    if not dims:
                        return T.val(st[1], r)[0]
                    return [mk2(dims[1:]) for _ in range(dims[0])]

                nd_ = ("ARR", shape2, mk2(shape2))
                ne = None
            if st[0] == "string" and kind in ("set", "setmisfit") and r.random() < 0.35:
                # a text sized against the space FIXED AT CREATION: it fits exactly, or it needs the next slot although the bytes up to
                # the end of the (slot-rounded) storage would hold it - e.g. 10..15 characters into String(10), stored size 18
                try:
                    cont_ = nav(obj, path[:-1])
                    s__ = path[-1]
                    a0_ = int(getattr(type(cont_), s__[1]).get_offset(cont_)[1]) if s__[0] == "f" else int(cont_._get_offset(s__[1] if len(s__[1]) > 1 else s__[1][0]))
                    S_ = int.from_bytes(image(buf)[a0_:a0_ + 8], "little")
                    L_ = max(0, S_ - 9 + r.choice([-8, -1, 0, 1, 2, 6, 7]))
                    nd_ = "".join(r.choice("abcxyz") for _ in range(L_))
                    ne = nd_
                    R.tags["op.set.string-sized-against-capacity"] += 1
                except Exception:
                    pass
            if T.has_zero_nd(st, nd_):
                continue
            vs2, arg2 = vsexp(st, nd_, cache, "py")
            if st[0] == "scalar" and kind == "set" and T.scalars()[st[1]]._dtype.kind == "f" and r.random() < 0.5:
                # the same number as a NumPy floating scalar of ANOTHER width (it must be converted, not copied byte for byte)
                try:
                    fv = float(arg2)
                    with np.errstate(all="ignore"):
                        exact16 = fv != fv or float(np.float16(fv)) == fv
                    if exact16:
                        arg2 = r.choice([np.float16, np.float32, np.float64])(fv)
                        R.tags["op.set.numpy-float-other-width"] += 1
                except Exception:
                    pass
            before = image(buf)
            cap_b = buf.capacity
            slot_ext = None
            if st[0] == "string":
                try:
                    cont = nav(obj, path[:-1])
                    s_ = path[-1]
                    a0 = int(getattr(type(cont), s_[1]).get_offset(cont)[1]) if s_[0] == "f" else int(cont._get_offset(s_[1] if len(s_[1]) > 1 else s_[1][0]))
                    slot_ext = (a0, a0 + int.from_bytes(before[a0:a0 + 8], "little"))
                except Exception:
                    slot_ext = None
            try:
                old = deep_str(t, obj, cache)
            except Exception:
                old = None
            own_refused = None
            try:
                if kind == "set" and len(path) > 1 and r.random() < 0.6:
                    # through a nested container handle that was obtained earlier (possibly before the buffer grew)
                    key = (hname, path[:-1])
                    if key not in kept:
                        kept[key] = nav(h, path[:-1])
                    cont = kept[key]
                    s_ = path[-1]
                    if s_[0] == "f":
                        setattr(cont, s_[1], arg2)
                    else:
                        cont[s_[1] if len(s_[1]) > 1 else s_[1][0]] = arg2
                    hname += " (kept nested handle)"
                elif kind == "set" and st[0] in ("struct", "array") and r.random() < 0.5:
                    # the whole update goes through a handle of the element itself (what `parent.field = value` does internally
                    # with a temporary view): that handle must read the new value afterwards - its own caches included
                    own = nav(h, path)
                    own._update(arg2)
                    hname += " (the element's own handle)"
                    R.tags["op.set.own-handle"] += 1
                    try:
                        seen, fresh_ = deep_str(st, own, cache), deep_str(st, nav(h, path), cache)
                    except Exception as ex:
                        seen, fresh_ = "EXC " + exc_name(ex), None
                    if seen != fresh_:
                        R.fail("C10:own-handle-stale", f"{sx[:200]}: after `x = obj{pstr(path)}; x._update({repr(nd_)[:80]})` the handle x reads "
                               f"{seen[:140]}, a fresh view of the same element {str(fresh_)[:140]}", dict(cctx, path=pstr(path), assigned=repr(nd_)[:400]))
                elif kind in ("setmisfit", "badlen") and st[0] == "array" and r.random() < 0.6:
                    # a (possibly refused) whole update through a handle of the array itself: after a REFUSAL that handle is what it was
                    own_refused = nav(h, path)
                    own_refused._update(arg2)
                    own_refused = None
                    hname += " (the element's own handle)"
                else:
                    nav_set(h, path, arg2)
                res = "ok"
            except Exception as ex:
                res = "err " + exc_name(ex)
            if res != "ok" and own_refused is not None:
                R.tags["op.refused-update.own-handle"] += 1
                try:
                    seen, fresh_ = deep_str(st, own_refused, cache), deep_str(st, nav(h, path), cache)
                except Exception as ex:
                    seen, fresh_ = "EXC " + exc_name(ex), None
                if seen != fresh_:
                    R.fail("C11:refused-update-changed-the-handle", f"{sx[:200]}: x = obj{pstr(path)}; x._update({repr(nd_)[:80]}) was refused, but the handle x "
                           f"now reads {seen[:140]}; a fresh view of the same element reads {str(fresh_)[:140]}", dict(cctx, path=pstr(path), assigned=repr(nd_)[:400]))
            after = image(buf)
            ops.append(f"set h {pstr(path)} {vs2}")
            exp.append(f"{res} cap {buf.capacity} mem {after.hex()}")
            R.tags[f"op.{kind}.{st[0]}.{res.split()[0]}"] += 1
            c2 = dict(cctx, path=pstr(path), assigned=repr(nd_)[:400], through=hname)
            try:
                now = deep_str(t, obj, cache)
            except Exception as ex:
                now = "EXC " + exc_name(ex)
                R.fail("C10:read-after-set-raises", f"{sx[:200]}: after assigning {repr(nd_)[:100]} to {pstr(path)} reading raises {type(ex).__name__}: {str(ex)[:100]}", c2)
            if res == "ok":
                if kind == "badlen":
                    R.fail("C11:wrong-shape-accepted", f"{sx[:200]}: assigning a value of shape {nd_[1]} to {pstr(path)} (shape {sub[1]}) through the {hname} succeeds", c2)
                # fitting? the space fixed at creation is the stored extent of the slot
                if st[0] == "string" and slot_ext is not None:
                    a0, a1 = slot_ext
                    ch = [i for i in range(min(len(before), len(after))) if before[i] != after[i] and not a0 <= i < a1]
                    if ch:
                        R.fail("C11:overrun-accepted", f"{sx[:200]}: assigning {repr(nd_)[:60]} to the string at {pstr(path)} (space fixed at creation [{a0},{a1})) was accepted and changed bytes {ch[:8]} beyond it", c2)
                new_e = replace_at(t, cur_e, path, ne) if ne is not None else None
                if new_e is not None:
                    w2 = expect_str(t, new_e, cache)
                    if now == w2:
                        cur_e = new_e
                        R.tags["C10.ok"] += 1
                        # locality in bytes: nothing outside the object's extent (and referenced extents) changes
                    elif not now.startswith("EXC"):
                        R.fail("C10:set-not-local" if old is not None else "C10:set-wrong",
                               f"{sx[:200]}: after assigning {repr(nd_)[:100]} to {pstr(path)} through the {hname} the object reads {now[:140]}, expected {w2[:140]}", c2)
                        break
                lo, hi = int(obj._offset), int(obj._offset) + int(obj._get_size() if hasattr(obj, "_get_size") else cls._size)
                refs = "(ref " in sx or "(uref " in sx
                if not refs:
                    ch = [i for i in range(min(len(before), len(after))) if before[i] != after[i] and not lo <= i < hi]
                    if ch:
                        R.fail("C03:set-writes-outside", f"{sx[:200]}: assigning {repr(nd_)[:100]} to {pstr(path)} changed bytes {ch[:8]} outside the object [{lo},{hi})", c2)
                        break
            else:
                if after != before or buf.capacity != cap_b:
                    ch = [i for i in range(min(len(before), len(after))) if before[i] != after[i]]
                    what = {"struct": "struct-update", "array": "array-value"}.get(st[0], st[0])
                    R.fail("C11:error-with-side-effect:" + what, f"{sx[:200]}: assigning {repr(nd_)[:100]} to {pstr(path)} through the {hname} raised {res} but changed bytes {ch[:8]}", c2)
                    break
                if old is not None and now != old:
                    R.fail("C11:error-with-side-effect", f"{sx[:200]}: refused assignment changed the value", c2)
            ops.append("deep h -")
            exp.append("val " + now if not now.startswith("EXC") else None)
            if st[0] == "scalar" and res == "ok" and not now.startswith("EXC"):
                continue        # no structural change: keep mutating (through the same handles)
            # paths may be stale after a structural change: stop mutating this object
            break


def run_fixed(R, t, d, e, path, new_d, name):
    """one fixed case of the corpus: construct t from d, then assign new_d at path (protocol lines + C10/C11 oracle)"""
    xo = common.import_xobjects()
    cache = {}
    cls = T.build(t, cache)
    vs, arg = vsexp(t, d, cache, "py")
    ctx = xo.ContextCpu()
    buf = ctx.new_buffer(256)
    buf.update_from_buffer(0, bytes([0xA5]) * 256)
    ops, exp = ["buf 256 8", "fill 0 256 165"], ["ok", "ok"]
    junk = buf.allocate(8)
    ops.append("alloc 8")
    exp.append(f"off {junk}")
    obj = cls(arg, _buffer=buf)
    sx = T.sexp(t)
    cctx = case_ctx(t, d, "py", ops)
    cctx["corpus"] = name
    ops += [f"type T {sx}", f"new T h {vs}"]
    exp += ["ok", f"off {int(obj._offset)} size {int(obj._get_size())} cap {buf.capacity} mem {image(buf).hex()}"]
    st = t
    for s in path:
        st = dict(st[2])[s[1]] if s[0] == "f" else st[1]
    vs2, arg2 = vsexp(st, new_d, cache, "py")
    before = image(buf)
    try:
        nav_set(obj, path, arg2)
        res = "ok"
    except Exception as ex:
        res = "err " + exc_name(ex)
    after = image(buf)
    ops.append(f"set h {pstr(path)} {vs2}")
    exp.append(f"{res} cap {buf.capacity} mem {after.hex()}")
    if res != "ok" and after != before:
        ch = [i for i in range(len(before)) if before[i] != after[i]]
        what = {"struct": "struct-update", "array": "array-value"}.get(st[0], st[0])
        R.fail("C11:error-with-side-effect:" + what, f"{sx[:200]}: assigning {repr(new_d)[:120]} to {pstr(path)} raised {res} but changed bytes {ch[:8]}", cctx)
    R.tags["corpus." + name] += 1
    R.lines += ops
    R.expect += exp
    R.ctxs += [cctx] * len(ops)


def run_corpus(R):
    """minimised past findings; run first on every run"""
    # O-13: dict update of a nested struct is not atomic (known finding)
    t = ("struct", "S174", [("f0", ("struct", "S175", [("f0", ("scalar", 3)), ("f1", ("scalar", 2)), ("f2", ("string",))]))])
    d = {"f0": {"f0": 1, "f1": 2, "f2": "a"}}
    run_fixed(R, t, d, d, (("f", "f0"),), {"f0": 0, "f1": 8511693486216555650, "f2": "abcdefgh"}, "O-13")
    # O-11: a longer string must be refused and leave everything unchanged
    t = ("struct", "S109", [("f0", ("string",)), ("f1", ("scalar", 1)), ("f2", ("scalar", 7))])
    d = {"f0": "hé", "f1": 1.5, "f2": 7}
    run_fixed(R, t, d, d, (("f", "f0"),), "q" * 33, "O-11")
    t = ("array", ("string",), [None], [0])
    d = ("ARR", [3], ["abcdefgh", "x" * 17, "q" * 33])
    run_fixed(R, t, d, d, (("i", (0,)),), "q" * 33, "O-11b")
    # constructions that failed on the pinned tree (O-3, O-5/O-25, O-6, O-7, O-8): construct, read through handle and view, decode
    r = random.Random(12345)
    fixed = [
        # O-3: non-C axis order from an ndarray
        (("array", ("scalar", 3), [3, 3, 1], [1, 0, 2]), ("ARR", [3, 3, 1], [[[1], [2], [3]], [[4], [5], [6]], [[7], [8], [9]]]), "nd"),
        (("array", ("scalar", 0), [None, 2], [1, 0]), ("ARR", [3, 2], [[1.0, 2.0], [3.0, 4.0], [5.0, 6.0]]), "nd"),
        # a NumPy value laid out exactly like the array itself (its own non-C axis order), and in Fortran order
        (("array", ("scalar", 0), [3, 4], [1, 0]), ("ARR", [3, 4], [[1.0, 2.0, 3.0, 4.0], [5.0, 6.0, 7.0, 8.0], [9.0, 10.0, 11.0, 12.0]]), "ndown"),
        (("array", ("scalar", 2), [None, 2, 2], [2, 0, 1]), ("ARR", [2, 2, 2], [[[1, 2], [3, 4]], [[5, 6], [7, 8]]]), "ndown"),
        (("array", ("scalar", 2), [2, None], [0, 1]), ("ARR", [2, 3], [[1, 2, 3], [4, 5, 6]]), "ndf"),
        # O-5 / O-25: nested dynamic items from nested lists
        (("array", ("array", ("string",), [1, 1], [0, 1]), [3, None], [1, 0]),
         ("ARR", [3, 1], [[("ARR", [1, 1], [["abcdefghijklmno"]])], [("ARR", [1, 1], [["q" * 33]])], [("ARR", [1, 1], [["abcdefg"]])]]), "py"),
        # O-6 / O-8: offset table of a non-C order array of dynamically sized items, read through a view
        (("array", ("array", ("scalar", 3), [1, None, 2], [0, 1, 2]), [2, 2], [1, 0]),
         ("ARR", [2, 2], [[("ARR", [1, 1, 2], [[[1, 2]]]), ("ARR", [1, 1, 2], [[[3, 4]]])],
                          [("ARR", [1, 2, 2], [[[5, 6], [7, 8]]]), ("ARR", [1, 1, 2], [[[9, 10]]])]]), "ndobj"),
        (("array", ("string",), [2, None, 2], [2, 0, 1]),
         ("ARR", [2, 3, 2], [[["a", "bb"], ["ccc", "dddd"], ["e" * 9, ""]], [["f", "g" * 17], ["h", "i"], ["j", "k" * 8]]]), "py"),
        # the same cyclic-order array as a struct FIELD: the field accessor of the constructed handle is itself a view
        (("struct", "SV", [("k", ("scalar", 2)), ("g", ("array", ("string",), [2, None, 2], [2, 0, 1]))]),
         {"k": 7, "g": ("ARR", [2, 3, 2], [[["a", "bb"], ["ccc", "dddd"], ["e" * 9, ""]], [["f", "g" * 17], ["h", "i"], ["j", "k" * 8]]])}, "py"),
        # O-7: capacity strings among array items
        (("struct", "S127", [("f1", ("scalar", 5)), ("f2", ("array", ("string",), [2], [0]))]),
         {"f1": 0, "f2": ("ARR", [2], [("CAP", 7), "abcdefgh"])}, "py"),
        # O-4: String(capacity) in reused memory
        (("struct", "S22", [("f0", ("string",)), ("f1", ("scalar", 7))]), {"f0": ("CAP", 10), "f1": 24784}, "py"),
        # large capacities in reused memory (more room than any fixed block of zeros a writer might slice from): top level, next to
        # another dynamic field, as array items
        (("struct", "S24", [("f0", ("string",))]), {"f0": ("CAP", 400)}, "py"),
        (("struct", "S23", [("f0", ("string",)), ("f1", ("array", ("scalar", 3), [None], [0]))]), {"f0": ("CAP", 300), "f1": ("ARR", [2], [1, 2])}, "py"),
        (("array", ("string",), [None], [0]), ("ARR", [3], [("CAP", 1000), "ab", ("CAP", 257)]), "py"),
    ]
    for t, d, form in fixed:
        def exp_of(tt, dd):
            if tt[0] == "string":
                return "" if isinstance(dd, tuple) else dd
            if tt[0] == "struct":
                return {n: exp_of(ft, dd[n]) for n, ft in tt[2]}
            if tt[0] == "array":
                def walk(x, dims):
                    if not dims:
                        return exp_of(tt[1], x)
                    return [walk(y, dims[1:]) for y in x]
                return ("ARR", dd[1], walk(dd[2], dd[1]))
            if tt[0] == "scalar" and T.scalars()[tt[1]]._dtype.kind == "f":
                return float(dd)
            return dd
        exec_case(R, r, t, d, exp_of(t, d), form, mutate=False, min_cap=4096 if t[1] in ("S23", "S24") or "1000" in repr(d) else 0)


_rs_uid = itertools.count()


def run_resplit(R, r, n):
    """C10 through views obtained EARLIER: a nested struct with two dynamically sized fields of one type (or an array of strings)
    is replaced as a whole by a value of the same total size that divides it differently; the element is then read and
    written through a view of it that was obtained before the replacement (views cache the offsets of dynamic parts)."""
    xo = common.import_xobjects()
    forced = [("items", True, True), ("strings", True, True), ("items", True, False), ("arrays", True, False)]
    for it_ in range(n + len(forced)):
        uid = next(_rs_uid)
        cache = {}
        f_kind, f_own, f_spare = forced[it_] if it_ < len(forced) else (None, None, None)     # always-run corpus of the own-handle cases
        kind = f_kind or r.choice(["arrays", "strings", "items"])
        la, lb = r.sample([0, 1, 2, 3, 5], 2)
        if kind == "arrays":
            X = ("array", ("scalar", r.choice([2, 0, 4])), [None], [0])
            va, vb = ("ARR", [la], [r.randint(1, 9) for _ in range(la)]), ("ARR", [lb], [r.randint(11, 19) for _ in range(lb)])
        else:
            X = ("string",)
            va, vb = "a" * (8 * la + 1), "b" * (8 * lb + 1)
        if kind == "items":
            inner = ("array", X, [2], [0])
            v0, v1 = ("ARR", [2], [va, vb]), ("ARR", [2], [vb, va])
            leaf = None
        else:
            fs = [("f0", X), ("f1", X)]
            if r.random() < 0.5:
                fs.insert(r.randrange(3), ("k", ("scalar", 2)))
            inner = ("struct", f"RS{uid}", fs)
            v0 = {"f0": va, "f1": vb, "k": 3}
            v1 = {"f0": vb, "f1": va, "k": 4}
            v0 = {n_: v0[n_] for n_, _t in fs}
            v1 = {n_: v1[n_] for n_, _t in fs}
            leaf = "f1" if kind == "arrays" and (la if True else 0) > 0 else None
        if r.random() < 0.5:
            outer = ("struct", f"RO{uid}", [("k", ("scalar", 2)), ("i", inner), ("z", ("scalar", 2))])
            d0 = {"k": 1, "i": v0, "z": 9}
            path = (("f", "i"),)
        else:
            outer = ("array", inner, [2], [0])
            d0 = ("ARR", [2], [v0, v0])
            path = (("i", (r.randrange(2),)),)
        sx = T.sexp(outer)
        ctx = {"component": "lay", "type": sx, "value": repr(d0)[:600], "assigned": repr(v1)[:300], "path": pstr(path), "op": "resplit"}
        try:
            cls = T.build(outer, cache)
            _vs, arg = vsexp(outer, d0, cache, "py")
            buf = xo.ContextCpu().new_buffer(r.choice([64, 1024]))
            obj = cls(arg, _buffer=buf)
            view = cls._from_buffer(buf, int(obj._offset))
            kept = [nav(h, path) for h in (obj, view)]
            _vs1, arg1 = vsexp(inner, v1, cache, "py")
            h = r.choice([obj, view])
            if f_own or (f_own is None and r.random() < 0.4):
                # the replacement goes through a handle of the ELEMENT itself (also: a stand-alone element): that very handle must
                # read the new value afterwards (its own cached offsets included) - this is not the known finding O-30
                own = nav(h, path) if r.random() < 0.7 else T.build(inner, cache)(vsexp(inner, v0, cache, "py")[1], _buffer=buf)
                src = T.build(inner, cache)(arg1, _buffer=r.choice([buf, xo.ContextCpu().new_buffer(64)]))
                # a struct takes another division only from an INSTANCE (binary copy); plain data is assigned field by field and a
                # dynamic field cannot change its size; an array re-plans its items from plain data too
                want_own = expect_str(inner, v1, cache)
                # a COPY of the element made before the update must not be affected by it (C09), nor must a copy made from the copy
                try:
                    cp_before = T.build(inner, cache)(own, _buffer=r.choice([buf, xo.ContextCpu().new_buffer(64)]))
                    cp_val = deep_str(inner, cp_before, cache)
                except Exception:
                    cp_before = None
                if kind != "arrays" and (f_spare or (f_spare is None and r.random() < 0.5)):
                    # the source is NOT minimally packed: one of its strings was overwritten in place by a shorter text and keeps
                    # its spare room, so the copied bytes are not the compact layout a plan for that value would give
                    try:
                        if kind == "items":
                            src[0] = "c"
                        else:
                            src.f0 = "c"
                        want_own = deep_str(inner, src, cache)
                        R.tags["resplit.own-handle.source-with-spare-room"] += 1
                    except Exception:
                        pass
                    own._update(src)
                else:
                    own._update(arg1 if kind == "items" and r.random() < 0.5 else src)
                R.tags["resplit.own-handle"] += 1
                try:
                    seen = deep_str(inner, own, cache)
                except Exception as ex:
                    seen = "EXC " + type(ex).__name__ + " " + str(ex)[:60]
                try:
                    fresh_own = deep_str(inner, type(own)._from_buffer(own._buffer, int(own._offset)), cache)
                except Exception as ex:
                    fresh_own = "EXC " + type(ex).__name__
                if cp_before is not None:
                    try:
                        cp_now = deep_str(inner, cp_before, cache)
                    except Exception as ex:
                        cp_now = "EXC " + type(ex).__name__ + " " + str(ex)[:60]
                    if cp_now != cp_val:
                        R.fail("C09:write-shows-through", f"{sx[:200]}: a copy of the element made BEFORE `x._update(value of the same size, other "
                               f"division)` reads {cp_now[:120]} afterwards, it held {cp_val[:120]}", ctx)
                        R.fail("C01:value-changed-by-update-of-another-object", f"{sx[:200]}: an object copy-constructed from x reads {cp_now[:120]} "
                               f"after x._update(...), it was built as {cp_val[:120]} and never written to", ctx)
                    try:
                        cp_fresh = deep_str(inner, type(cp_before)._from_buffer(cp_before._buffer, int(cp_before._offset)), cache)
                    except Exception as ex:
                        cp_fresh = "EXC " + type(ex).__name__
                    if cp_now != cp_fresh:
                        R.fail("C06:handle-differs-from-view", f"{sx[:200]}: y = T(x); x._update(instance of the same size, other division): the "
                               f"handle y reads {cp_now[:120]}, a view rebuilt from (buffer, offset) reads {cp_fresh[:120]}", ctx)
                    # a fitting write through the copy's handle stays inside the copy's extent
                    cb, c0, c1 = cp_before._buffer, int(cp_before._offset), int(cp_before._offset) + int(cp_before._size)
                    img_c = image(cb)
                    try:
                        if kind == "arrays":
                            tgt_f = cp_before.f1 if lb > 0 else cp_before.f0
                            tgt_f[(lb if lb > 0 else la) - 1] = 77
                        elif kind == "strings":
                            cp_before.f1 = "c" * len(vb)
                        else:
                            cp_before[1] = "c" * len(vb)
                        R.tags["resplit.write-through-earlier-copy"] += 1
                        # ... and changes that element to exactly the assigned value (read through a view rebuilt from buffer + offset)
                        fv = type(cp_before)._from_buffer(cp_before._buffer, int(cp_before._offset))
                        if kind == "arrays":
                            got_w = int((fv.f1 if lb > 0 else fv.f0)[(lb if lb > 0 else la) - 1])
                            want_w = 77
                        elif kind == "strings":
                            got_w, want_w = str(fv.f1), "c" * len(vb)
                        else:
                            got_w, want_w = str(fv[1]), "c" * len(vb)
                        if got_w != want_w:
                            R.fail("C10:set-through-handle-after-update-of-its-source", f"{sx[:200]}: y = T(x); x._update(instance of the same size, "
                                   f"other division); an element of y assigned {want_w!r} through the handle y reads {got_w!r}", ctx)
                    except Exception:
                        pass
                    now_c = image(cb)
                    out_c = [i for i in range(min(len(img_c), len(now_c))) if img_c[i] != now_c[i] and not (c0 <= i < c1)]
                    if out_c:
                        R.fail("C03:write-outside-extent", f"{sx[:200]}: y = T(x); x._update(...); a fitting element assignment through y "
                               f"(extent [{c0},{c1})) changed bytes {out_c[:6]} outside it", ctx)
                if kind in ("items", "strings"):
                    # a fitting assignment to the LAST dynamic part through the handle the update went through stays inside x
                    ob_, o0_, o1_ = own._buffer, int(own._offset), int(own._offset) + int(own._get_size())
                    img_o = image(ob_)
                    try:
                        # the extent of the part that is assigned, as the BUFFER records it (fresh view): offset entry + stored size
                        fv0_ = type(own)._from_buffer(own._buffer, int(own._offset))
                        if kind == "items":
                            p0_ = o0_ + int(np.asarray(fv0_._offsets).reshape(-1)[len(fv0_) - 1])
                        else:
                            p0_ = int(type(fv0_).f1.get_offset(fv0_)[1])
                        p1_ = p0_ + int.from_bytes(img_o[p0_:p0_ + 8], "little")
                    except Exception:
                        p0_ = p1_ = None
                    try:
                        if kind == "items":
                            own[len(own) - 1] = "z"
                        else:
                            own.f1 = "z"
                        if p0_ is not None:
                            now_p = image(ob_)
                            out_p = [i for i in range(min(len(img_o), len(now_p))) if img_o[i] != now_p[i] and not (p0_ <= i < p1_)]
                            if out_p:
                                R.fail("C03:write-outside-extent", f"{sx[:200]}: x._update(instance of the same size, not minimally packed); assigning 'z' to the "
                                       f"last part of x through x (that part occupies [{p0_},{p1_})) changed bytes {out_p[:6]} of its siblings", ctx)
                        R.tags["resplit.own-handle.write-after-update"] += 1
                        now_o = image(ob_)
                        out_o = [i for i in range(min(len(img_o), len(now_o))) if img_o[i] != now_o[i] and not (o0_ <= i < o1_)]
                        if out_o:
                            R.fail("C03:write-outside-extent", f"{sx[:200]}: x._update(instance of the same size); a fitting assignment to the last part of x "
                                   f"through x (extent [{o0_},{o1_})) changed bytes {out_o[:6]} outside it", ctx)
                        fv_ = type(own)._from_buffer(own._buffer, int(own._offset))
                        got_z = str(fv_[len(fv_) - 1]) if kind == "items" else str(fv_.f1)
                        if got_z != "z":
                            R.fail("C10:set-through-handle-after-update-of-its-source", f"{sx[:200]}: x._update(instance of the same size); the last part of x "
                                   f"assigned 'z' through x reads {got_z!r} in a fresh view", ctx)
                        seen = deep_str(inner, own, cache)
                        fresh_own = deep_str(inner, fv_, cache)
                        want_own = fresh_own
                    except Exception:
                        pass
                if seen != fresh_own:
                    R.fail("C06:handle-differs-from-view", f"{sx[:200]}: after x._update(instance of the same size) the handle x reads {seen[:120]}, a "
                           f"view rebuilt from (buffer, offset) reads {fresh_own[:120]}", ctx)
                if seen != want_own:
                    R.fail("C10:own-handle-stale", f"{sx[:200]}: x = the element {pstr(path)} (or a stand-alone {T.sexp(inner)[:80]}); x._update(value of the "
                           f"same size, other division): x reads {seen[:120]}, the assigned value is {want_own[:120]}", ctx)
                continue
            # an existing object of the element's type (a dictionary / list would be assigned part by part)
            nav_set(h, path, T.build(inner, cache)(arg1, _buffer=r.choice([buf, xo.ContextCpu().new_buffer(64)])))
        except Exception as ex:
            R.fail("C10:resplit-raises", f"{sx[:200]}: replacing {pstr(path)} by a value of the same size raises {type(ex).__name__}: {str(ex)[:120]}", ctx)
            continue
        R.tags["resplit." + kind] += 1
        e1 = replace_at(outer, d0, path, v1)
        want = expect_str(outer, e1, cache)
        try:
            now = deep_str(outer, obj, cache)
        except Exception as ex:
            now = "EXC " + type(ex).__name__
        if now != want:
            R.fail("C10:set-wrong", f"{sx[:200]}: after replacing {pstr(path)} the object reads {now[:140]}, expected {want[:140]}", ctx)
            continue
        wi = expect_str(inner, v1, cache)
        stale = False
        for kv, nm in zip(kept, ("handle", "view")):
            try:
                got = deep_str(inner, kv, cache)
            except Exception as ex:
                got = "EXC " + type(ex).__name__ + " " + str(ex)[:60]
            if got != wi:
                stale = True
                R.fail("C10:stale-kept-view:read", f"{sx[:200]}: {pstr(path)} was replaced (same size, other division) through the object; a view of it "
                       f"obtained earlier from the {nm} reads {got[:120]}, the element holds {wi[:120]}", ctx)
                break
        if stale or kind != "arrays":
            continue
        # a write through the earlier view lands in the assigned element, and only there
        fld = "f1"
        if len(v1[fld][2]) == 0:
            fld = "f0"
        if len(v1[fld][2]) == 0:
            continue
        try:
            getattr(kept[0], fld)[0] = 77
            v2 = dict(v1)
            v2[fld] = ("ARR", v1[fld][1], [77] + list(v1[fld][2][1:]))
            want2 = expect_str(outer, replace_at(outer, d0, path, v2), cache)
            now2 = deep_str(outer, obj, cache)
            if now2 != want2:
                R.fail("C10:stale-kept-view:write", f"{sx[:200]}: a write through a view of {pstr(path)} obtained before its replacement: object reads {now2[:140]}, expected {want2[:140]}", ctx)
        except Exception as ex:
            R.fail("C10:stale-kept-view:write", f"{sx[:200]}: a write through a view of {pstr(path)} obtained before its replacement raises {type(ex).__name__}", ctx)


def run_shrunk_room(R, r, n):
    """C11 through a handle obtained EARLIER: an array of dynamically sized items is updated as a whole with smaller items (it keeps
    its size, item 0 keeps its offset but gets LESS room); an update of item 0 - through a handle taken before - with a value that
    needs more than the room item 0 has NOW must be refused and change nothing (the neighbouring item starts right behind)."""
    xo = common.import_xobjects()
    for it_ in range(n + 2):
        cache = {}
        kind = ["strings", "arrays"][it_] if it_ < 2 else r.choice(["strings", "arrays"])
        k = r.choice([2, 2, 3])
        if kind == "strings":
            X = ("string",)
            big = ["L" * r.choice([17, 40, 41]) for _ in range(k)]
            small = ["s" * r.choice([0, 1, 7]) for _ in range(k)]
        else:
            X = ("array", ("scalar", r.choice([2, 0, 4])), [None], [0])
            big = [("ARR", [m], [r.randint(1, 9) for _ in range(m)]) for m in (r.choice([3, 5, 8]) for _ in range(k))]
            small = [("ARR", [m], [r.randint(1, 9) for _ in range(m)]) for m in (r.choice([0, 1]) for _ in range(k))]
        dyn_inner = it_ < 2 or r.random() < 0.5
        inner = ("array", X, [None] if dyn_inner else [k], [0])
        m = r.choice([2, 3])
        outer = ("array", inner, [None] if r.random() < 0.5 else [m], [0])
        other = ("ARR", [k], small)
        d0 = ("ARR", [m], [("ARR", [k], big)] + [other] * (m - 1))
        d1 = ("ARR", [m], [("ARR", [k], small)] + [other] * (m - 1))
        sx = T.sexp(outer)
        ctx = {"component": "lay", "type": sx, "value": repr(d0)[:600], "assigned": repr(d1)[:300], "op": "shrunk-room"}
        try:
            cls = T.build(outer, cache)
            buf = xo.ContextCpu().new_buffer(r.choice([64, 4096]))
            obj = cls(vsexp(outer, d0, cache, "py")[1], _buffer=buf)
            nb = xo.String("live neighbour", _buffer=buf)
            h0 = obj[0]
            obj._update(vsexp(outer, d1, cache, "py")[1])
            want = expect_str(outer, d1, cache)
            if deep_str(outer, obj, cache) != want:
                continue                       # (the whole update itself is the business of the other streams)
        except Exception as ex:
            R.fail("C10:resplit-raises", f"{sx[:200]}: a whole update with smaller items raises {type(ex).__name__}: {str(ex)[:120]}", ctx)
            continue
        img0 = image(buf)
        R.tags["shrunk-room." + kind] += 1
        raised = None
        try:
            h0._update(vsexp(inner, ("ARR", [k], big), cache, "py")[1])
        except Exception as ex:
            raised = type(ex).__name__
        if image(buf) != img0:
            try:
                now = deep_str(outer, cls._from_buffer(buf, int(obj._offset)), cache)
            except Exception as ex:
                now = "unreadable: " + type(ex).__name__
            R.fail("C11:overrun", f"{sx[:200]}: x = obj[0]; obj._update(smaller items); x._update(the first, larger value): item 0 has room for the "
                   f"smaller value only, yet the buffer changed (raised: {raised}); the array reads {now[:160]}, it held {want[:160]}; "
                   f"neighbour reads {nb.to_str()[:20]!r}", ctx)
        elif raised is None:
            R.fail("C11:misfit-accepted", f"{sx[:200]}: x = obj[0]; obj._update(smaller items); x._update(the first, larger value) was accepted", ctx)


def run_all(tier, seed, refs=False, n=None, mutate=True):
    r = random.Random(seed * 1000003 + (77 if refs else 13))
    R = Run()
    n = n or {"quick": 160, "thorough": 4000}[tier]
    if not refs:
        run_corpus(R)
        if mutate:
            run_resplit(R, random.Random(seed * 7919 + 5), max(6, n // 20))
            run_shrunk_room(R, random.Random(seed * 7919 + 6), max(4, n // 40))
    for _ in range(n):
        run_case(R, r, refs, mutate=mutate)
    got = common.run_driver_sharded("lay", split_cases(R), nproc=8 if n > 400 else 2)
    got = [g for part in got for g in part]
    mism = []
    for i, (l, e, g, c) in enumerate(zip(R.lines, R.expect, got, R.ctxs)):
        if e is None:
            continue
        if e != g:
            what = f"`{l[:120]}`: implementation `{e[:100]}` model `{g[:100]}`"
            if " mem " in e and " mem " in g and e.split(" mem ")[0] == g.split(" mem ")[0]:
                a, b = e.split(" mem ")[1], g.split(" mem ")[1]
                k = next((k for k in range(0, min(len(a), len(b)), 2) if a[k:k + 2] != b[k:k + 2]), None)
                what = f"`{l[:160]}`: same offset/size, buffer images differ first at byte {None if k is None else k // 2} (lengths {len(a) // 2}/{len(b) // 2})"
            mism.append(common.Failure("tie", "lay-tie:" + l.split()[0], f"{c['type'][:200]} value {c['value'][:120]}: {what}", c))
    return {"failures": R.fails, "mismatches": mism, "lines": len(R.lines), "distinct": len(R.distinct), "tags": dict(R.tags),
            "hist": R.hist, "samples": [f"{c['type'][:120]} <- {c['value'][:80]}" for c in R.ctxs[::max(1, len(R.ctxs) // 5)]][:6]}


def split_cases(R):
    """protocol lines grouped per case (each case starts with `buf`)"""
    cases, cur = [], []
    for l in R.lines:
        if l.startswith("buf ") and cur:
            cases.append(cur)
            cur = []
        cur.append(l)
    if cur:
        cases.append(cur)
    return cases


# ------------------------------------------------------------------------------------------- JSON form (C19)

def json_able(t):
    """reference-free, all arrays one-dimensional"""
    k = t[0]
    if k in ("scalar", "string"):
        return True
    if k == "struct":
        return all(json_able(ft) for _, ft in t[2])
    if k == "array":
        return len(t[2]) == 1 and json_able(t[1])
    return False


def jt_tokens(t):
    k = t[0]
    if k == "scalar":
        return "n"
    if k == "string":
        return "s"
    if k == "array":
        return "[ " + jt_tokens(t[1]) + " ]"
    return "{ " + " ".join(f"{n} {jt_tokens(ft)}" for n, ft in t[2]) + " }"


def jv_tokens(t, e):
    k = t[0]
    if k == "scalar":
        return f"n{bits_of(t, e)}"
    if k == "string":
        return "s" + (e.encode().hex() or "-")
    if k == "array":
        return "[ " + " ".join(jv_tokens(t[1], x) for x in e[2]) + " ]"
    return "{ " + " ".join(jv_tokens(ft, e[n]) for n, ft in t[2]) + " }"


def canon_json(t, j):
    """canonical string of a real `_to_json()` result, numbers as bit patterns of the declared scalar type"""
    k = t[0]
    if k == "scalar":
        return str(bits_of(t, j))
    if k == "string":
        return '"' + j.encode().hex() + '"'
    if k == "array":
        return "[" + ",".join(canon_json(t[1], x) for x in j) + "]"
    return "{" + ",".join(f"{n}:{canon_json(ft, j[n])}" for n, ft in t[2]) + "}"


def run_json(tier, seed):
    """C19 (JSON form): T(x._to_json()) reproduces x, for reference-free structs and one-dimensional arrays"""
    xo = common.import_xobjects()
    r = random.Random(seed * 31 + 5)
    n = {"quick": 150, "thorough": 3000}[tier]
    fails, tags = [], collections.Counter()
    lines, expect, ctxs = [], [], []
    g = T.G(r, refs=False, max_nd=1)
    done = 0
    while done < n:
        t = g.ty(r.choice([1, 2, 2, 3]), compound_only=True)
        if not json_able(t) or T.names_clash(t):
            continue
        done += 1
        cache = {}
        cls = T.build(t, cache)
        d, e = T.val(t, r)
        arg = T.to_py(t, d, cache, "py")
        sx = T.sexp(t)
        ctx = {"component": "json", "type": sx, "value": repr(d)[:1500]}
        try:
            obj = cls(arg)
            j = obj._to_json()
        except Exception as ex:
            fails.append(common.Failure("oracle", "C19:to_json-raises:" + type(ex).__name__, f"{sx[:200]}: {str(ex)[:200]}", ctx))
            continue
        try:
            want = expect_str(t, e, cache)
            back = cls(j)
            got = deep_str(t, back, cache)
            tags["json.roundtrip"] += 1
            if got != want:
                fails.append(common.Failure("oracle", "C19:json-roundtrip-differs", f"{sx[:200]}: T(x._to_json()) reads {got[:160]}, x holds {want[:160]}", ctx))
        except Exception as ex:
            fails.append(common.Failure("oracle", "C19:from_json-raises:" + type(ex).__name__, f"{sx[:200]} value {repr(d)[:120]}: constructing from the JSON form raises {type(ex).__name__}: {str(ex)[:160]}", ctx))
        try:
            lines.append(f"json {jt_tokens(t)} | {jv_tokens(t, e)}")
            expect.append(canon_json(t, j) + " same")
            ctxs.append(ctx)
        except Exception as ex:
            fails.append(common.Failure("oracle", "C19:json-form-unexpected", f"{sx[:200]}: {type(ex).__name__} {str(ex)[:100]}: {j!r}"[:400], ctx))
    got = common.run_driver("dict", lines)
    mism = []
    for l, e_, g_, c in zip(lines, expect, got, ctxs):
        if e_ != g_:
            mism.append(common.Failure("tie", "dict-tie:json", f"{c['type'][:200]}: implementation `{e_[:160]}` model `{g_[:160]}`", c))
    return {"failures": fails, "mismatches": mism, "lines": len(lines), "distinct": done, "tags": dict(tags), "samples": lines[:3]}
