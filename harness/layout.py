"""Layout component (C01, C03, C05, C06, C10, C11): random types x values x input forms x placements.

For every case the REAL xobjects object is constructed in a poison-filled buffer with prior allocations and frees,
with `buffer.allocate` wrapped (on the harness's own buffer object) so that the allocations made during the
construction are known.  Protocol lines for the Lean model (`lay` component) carry the same history; the model must
reproduce offset, size, capacity and the WHOLE buffer image, the deep value through the constructor handle and a
fresh view, element reads, and every assignment with the image after it (also on the error path).

Model-independent oracles (failing-input search):
  C01  deep value read through every accessor == the value the generator intended
  C03  bytes outside (extent ∪ extents allocated during the operation) unchanged; size == extent; parts nested, siblings disjoint
  C05  a decoder written only from the documentation recovers the value from the raw bytes; parts on slot boundaries
  C06  a view from (buffer, offset) has the same value / shape / strides / size, and writes through either are seen by both
  C10  a fitting assignment changes exactly that element
  C11  operations that cannot be honoured raise and leave every byte unchanged
"""
import collections
import itertools
import random

import numpy as np

from . import common, types as T

EXC = {"IndexError": "Index", "ValueError": "Value", "TypeError": "Type", "KeyError": "Key", "AttributeError": "Attribute",
       "MemoryError": "Memory", "AssertionError": "Assertion", "NotImplementedError": "NotImplemented"}


def exc_name(ex):
    return EXC.get(type(ex).__name__, type(ex).__name__)


# ------------------------------------------------------------------------------------------ values as S-expressions

def bits_of(t, x):
    dt = T.scalars()[t[1]]._dtype
    with np.errstate(all="ignore"):
        return int.from_bytes(dt.type(x).tobytes(), "little")


def vsexp(t, d, cache, form="py"):
    """(S-expression for the model, python constructor argument) of generated data d"""
    k = t[0]
    if k == "scalar":
        dt = T.scalars()[t[1]]._dtype
        return f"(bits {bits_of(t, d)})", dt.type(d)
    if k == "string":
        return (f"(str {d.encode().hex()})" if d else "(str)"), d
    if k == "struct":
        parts, arg = [], {}
        for n, ft in t[2]:
            s, a = vsexp(ft, d[n], cache, form)
            parts.append(f"({n} {s})")
            arg[n] = a
        return "(dict " + " ".join(parts) + ")", arg
    if k == "array":
        _, shape, data = d
        if form == "nd" and t[1][0] == "scalar":
            dt = T.scalars()[t[1][1]]._dtype
            arr = np.array(data, dtype=dt).reshape(shape)
            flat = [int.from_bytes(x.tobytes(), "little") for x in arr.reshape(-1)]
            return "(nd (" + " ".join(map(str, shape)) + ") " + " ".join(f"(bits {b})" for b in flat) + ")", arr

        def conv(x, dims):
            if not dims:
                return vsexp(t[1], x, cache, form)
            subs = [conv(y, dims[1:]) for y in x]
            return ("(list " + " ".join(s for s, _ in subs) + ")" if subs else "(list)"), [a for _, a in subs]

        s, a = conv(data, shape)
        if form == "ndobj" and len(shape) >= 1 and t[1][0] != "scalar" and 0 not in shape:
            o = np.empty(shape, dtype=object)
            for idx in np.ndindex(*shape):
                x = a
                for i in idx:
                    x = x[i]
                o[idx] = x
            a = o
        return s, a
    if k == "ref":
        if d is None:
            return "(none)", None
        return vsexp(t[1], d, cache, form)
    if k == "uref":
        if d is None:
            return "(none)", None
        _, i, dd = d
        s, a = vsexp(t[2][i], dd, cache, form)
        name = T.build(t[2][i], cache).__name__
        return f"(tagged {name} {s})", (name, a)
    raise ValueError(t)


def deep_str(t, obj, cache):
    """canonical deep value string, the format of the model's `deep`"""
    k = t[0]
    if k == "scalar":
        return "b" + str(bits_of(t, obj))
    if k == "string":
        return "s" + obj.encode().hex()
    if k == "struct":
        return "{" + ",".join(f"{n}={deep_str(ft, getattr(obj, n), cache)}" for n, ft in t[2]) + "}"
    if k == "array":
        shape = [int(x) for x in obj._shape]
        items = [deep_str(t[1], obj[idx if len(idx) > 1 else idx[0]], cache) for idx in itertools.product(*[range(s) for s in shape])]
        return "[" + " ".join(map(str, shape)) + "|" + ",".join(items) + "]"
    if k == "ref":
        return "N" if obj is None else deep_str(t[1], obj, cache)
    if k == "uref":
        if obj is None:
            return "N"
        names = [T.build(m, cache).__name__ for m in t[2]]
        i = names.index(obj.__class__.__name__)
        return f"U{i}:" + deep_str(t[2][i], obj, cache)


def expect_str(t, e, cache):
    """the same canonical string computed from the generator's intended value (no xobjects involved)"""
    k = t[0]
    if k == "scalar":
        return "b" + str(bits_of(t, e))
    if k == "string":
        return "s" + e.encode().hex()
    if k == "struct":
        return "{" + ",".join(f"{n}={expect_str(ft, e[n], cache)}" for n, ft in t[2]) + "}"
    if k == "array":
        _, shape, data = e
        items = []
        for idx in itertools.product(*[range(s) for s in shape]):
            x = data
            for i in idx:
                x = x[i]
            items.append(expect_str(t[1], x, cache))
        return "[" + " ".join(map(str, shape)) + "|" + ",".join(items) + "]"
    if k == "ref":
        return "N" if e is None else expect_str(t[1], e, cache)
    if k == "uref":
        return "N" if e is None else f"U{e[1]}:" + expect_str(t[2][e[1]], e[2], cache)


# --------------------------------------------------------------------------- decoder written only from the documentation

def slot(n):
    return (n + 7) // 8 * 8


def static_size(t):
    """class-level size from the documented rules, None if dynamic"""
    k = t[0]
    if k == "scalar":
        return T.scalars()[t[1]]._dtype.itemsize
    if k == "string":
        return None
    if k == "ref":
        return 8
    if k == "uref":
        return 16
    if k == "struct":
        tot = 0
        for _, ft in t[2]:
            s = static_size(ft)
            if s is None:
                return None
            tot += slot(s)
        return tot
    if k == "array":
        s = static_size(t[1])
        if s is None or None in t[2]:
            return None
        return slot(s * int(np.prod(t[2])) if t[2] else s)


def i64(mem, off):
    return int.from_bytes(mem[off:off + 8], "little", signed=True)


def mem_order_strides(shape, order, isz):
    """strides (bytes) per axis for an array whose axes are laid out in `order` (first = slowest)"""
    st = [0] * len(shape)
    acc = isz
    for ax in reversed(order):
        st[ax] = acc
        acc *= shape[ax]
    return st


class DocError(Exception):
    pass


def doc_decode(t, mem, off, parts=None, base=None):
    """canonical string of the value stored at `off`, following ONLY Architecture.md / types.rst / the property text.
    `parts` collects (offset relative to the outermost object, type kind) of every compound or dynamic part"""
    k = t[0]
    if base is None:
        base = off
    if parts is not None and k not in ("scalar",):
        parts.append((off - base, k))
    if k == "scalar":
        dt = T.scalars()[t[1]]._dtype
        return "b" + str(int.from_bytes(mem[off:off + dt.itemsize], "little"))
    if k == "string":
        size = i64(mem, off)
        if size < 8 or off + size > len(mem):
            raise DocError(f"string size word {size} at {off}")
        data = bytes(mem[off + 8: off + size])
        z = data.find(b"\x00")
        if z < 0:
            raise DocError("string not NUL-terminated")
        return "s" + data[:z].hex()
    if k == "ref":
        rel = i64(mem, off)
        if rel == -2**63:
            return "N"
        return doc_decode(t[1], mem, off + rel, None, None)
    if k == "uref":
        rel, tid = i64(mem, off), i64(mem, off + 8)
        if rel == -2**63:
            if tid != -1:
                raise DocError(f"null union reference with member index {tid}")
            return "N"
        if not 0 <= tid < len(t[2]):
            raise DocError(f"member index {tid}")
        return f"U{tid}:" + doc_decode(t[2][tid], mem, off + rel, None, None)
    if k == "struct":
        if static_size(t) is not None:
            out, o = [], 0
            for n, ft in t[2]:
                out.append(f"{n}=" + doc_decode(ft, mem, off + o, parts, base))
                o += slot(static_size(ft))
            return "{" + ",".join(out) + "}"
        size = i64(mem, off)
        statics = [(n, ft) for n, ft in t[2] if static_size(ft) is not None]
        dyns = [(n, ft) for n, ft in t[2] if static_size(ft) is None]
        pos, o = {}, 8
        for n, ft in statics:
            pos[n] = o
            o += slot(static_size(ft))
        table = o                       # offsets of the 2nd.. dynamic fields
        first = table + 8 * (len(dyns) - 1)
        for j, (n, ft) in enumerate(dyns):
            pos[n] = first if j == 0 else i64(mem, off + table + 8 * (j - 1))
        for n, _ in t[2]:
            if not 0 <= pos[n] < max(size, 1) + (0 if size else 1):
                raise DocError(f"field {n} at {pos[n]} outside the struct of size {size}")
        return "{" + ",".join(f"{n}=" + doc_decode(ft, mem, off + pos[n], parts, base) for n, ft in t[2]) + "}"
    if k == "array":
        it, cshape, order = t[1], t[2], t[3]
        isz = static_size(it)
        nd = len(cshape)
        if isz is not None and None not in cshape:
            shape, strides, data = list(cshape), mem_order_strides(list(cshape), order, isz), 0
        else:
            o = 8
            shape = []
            for d in cshape:
                if d is None:
                    shape.append(i64(mem, off + o))
                    o += 8
                else:
                    shape.append(d)
            if any(s < 0 or s > 10**6 for s in shape):
                raise DocError(f"dimensions {shape}")
            unit = isz if isz is not None else 8
            if nd > 1 and None in cshape:
                strides = [i64(mem, off + o + 8 * j) for j in range(nd)]
                o += 8 * nd
                if strides != mem_order_strides(shape, order, unit) and int(np.prod(shape)) > 0:
                    raise DocError(f"stored strides {strides} are not those of shape {shape} in axis order {order}")
            else:
                strides = mem_order_strides(shape, order, unit)
            data = o
        items = []
        n_items = int(np.prod(shape)) if shape else 1
        for idx in itertools.product(*[range(s) for s in shape]):
            rel = data + sum(i * s for i, s in zip(idx, strides))
            if isz is not None:
                items.append(doc_decode(it, mem, off + rel, parts, base))
            else:
                # table of item offsets, arranged in the array's memory order; entries relative to the array start
                io = i64(mem, off + rel)
                if not data + 8 * n_items <= io:
                    raise DocError(f"item offset {io} of index {idx} points into the header/table")
                items.append(doc_decode(it, mem, off + io, parts, base))
        return "[" + " ".join(map(str, shape)) + "|" + ",".join(items) + "]"
    raise ValueError(t)


# --------------------------------------------------------------------------------------------------- placements

class Traced:
    """a real buffer whose allocate() is wrapped on the instance (no repo change) to record what an operation allocates"""

    def __init__(self, buf):
        self.buf = buf
        self.log = []
        orig = buf.allocate

        def allocate(size, align=True, _orig=orig, _log=self.log):
            o = _orig(size, align) if align is not True else _orig(size)
            _log.append((int(o), int(size)))
            return o

        buf.allocate = allocate

    def take(self):
        out = list(self.log)
        del self.log[:]
        return out


def make_placement(r, ops, exp, kinds=("numpy",)):
    """a fresh real buffer with a random history; appends the protocol lines; returns (traced buffer, ctx)"""
    xo = common.import_xobjects()
    cap = r.choice([0, 8, 64, 256, 1024])
    al = r.choice([1, 2, 4, 8, 8, 16, 64])
    ctx = xo.ContextCpu()
    buf = ctx.new_buffer(cap)
    buf.default_alignment = al
    ops.append(f"buf {cap} {al}")
    exp.append("ok")
    if cap:
        buf.update_from_buffer(0, bytes([0xA5]) * cap)
        ops.append(f"fill 0 {cap} 165")
        exp.append("ok")
    pre = []
    for _ in range(r.randrange(3)):
        sz = r.randrange(1, 40)
        o = buf.allocate(sz)
        buf.update_from_buffer(o, bytes([0x5A]) * sz)
        pre.append((o, sz))
        ops.append(f"alloc {sz}")
        exp.append(f"off {o}")
        ops.append(f"fill {o} {sz} 90")
        exp.append("ok")
    live = list(pre)
    if pre and r.random() < 0.5:
        o, sz = pre[0]
        buf.free(o, sz)
        live.remove((o, sz))
        ops.append(f"free {o} {sz}")
        exp.append("ok")
    return Traced(buf), ctx, live


def image(buf):
    return bytes(buf.to_bytearray(0, buf.capacity)) if buf.capacity else b""


def new_case(r, refs, max_depth=3):
    g = T.G(r, refs=refs)
    while True:
        t = g.ty(r.choice([1, 2, 2, 3][: max_depth + 1]), compound_only=True)
        if t[0] in ("ref",) or T.names_clash(t):
            continue
        return t


def nested_parts(t, obj, cache, base, out, path=()):
    """(path, offset relative to base, size) of every compound nested part reachable without following references"""
    k = t[0]
    if k == "struct":
        for n, ft in t[2]:
            if ft[0] in ("struct", "array"):
                sub = getattr(obj, n)
                out.append((path + (n,), int(sub._offset) - base, int(sub._get_size()), len(path) + 1))
                nested_parts(ft, sub, cache, base, out, path + (n,))
    elif k == "array" and t[1][0] in ("struct", "array"):
        shape = [int(x) for x in obj._shape]
        for idx in itertools.islice(itertools.product(*[range(s) for s in shape]), 12):
            sub = obj[idx if len(idx) > 1 else idx[0]]
            out.append((path + (idx,), int(sub._offset) - base, int(sub._get_size()), len(path) + 1))
            nested_parts(t[1], sub, cache, base, out, path + (idx,))
