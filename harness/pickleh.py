"""Pickle component (C20): importable generated classes (the harness writes a module onto sys.path): static and dynamic structs
(two and more dynamic fields), nested structs, references, arrays of scalars and of dynamic items, hybrid classes with nested and
referenced hybrids; objects spread over several buffers; `pickle.loads(pickle.dumps(subset))`; then: values equal at every
field, reads and writes on the result, independence in both directions, sharing pattern (compared with the Lean model of the
memoised graph copy), and the unpickled buffers as working allocators (same free total, allocations disjoint from the objects,
identical behaviour to the original buffer on the same request sequence)."""
import collections
import importlib
import itertools
import os
import pickle
import random
import sys

import numpy as np

from . import common

_uid = itertools.count()

MODULE = '''
import xobjects as xo


class PS1(xo.Struct):
    a = xo.Int64
    b = xo.Float64


class PS2(xo.Struct):
    n = xo.Int64
    x = xo.Float64[:]
    s = xo.String
    y = xo.Int32[:]
    %(extra_dyn)s


class PS5(xo.Struct):
    n = xo.Int64
    x = xo.Float64[:]


class PS3(xo.Struct):
    inner = PS2
    r = xo.Ref[PS1]
    k = xo.Int8
    m = xo.Int16[%(mshape)s]


class PU(xo.UnionRef):
    _reftypes = [PS1, PS2]


class PS4(xo.Struct):
    u = PU
    us = PU[2]
    rs = xo.Ref[PS1][:]
    g = xo.Float64[:, :]
    t = xo.String[:]
    w = xo.Int32[2:1, 2:0, :]


class PH1(xo.HybridClass):
    _xofields = {"a": xo.Int64, "arr": xo.Float64[:]}


class PH2(xo.HybridClass):
    _xofields = {"h": PH1, "rr": xo.Ref(PH1), "q": xo.Int64}
    _rename = {"q": "queue"}


ArrNFloat64 = xo.Float64[:]
ArrNFloat64.__module__ = __name__
ArrNPS2 = PS2[:]
ArrNPS2.__module__ = __name__
'''


def make_module(tmp, r):
    name = f"xoverif_pk_{os.getpid()}_{next(_uid)}"
    extra = r.choice(["", "t = xo.String", "z = xo.Int8[:]"])
    mshape = r.choice(["2, 3", "3:1, 2:0", "4"])
    open(os.path.join(tmp, name + ".py"), "w").write(MODULE % {"extra_dyn": extra, "mshape": mshape})
    if tmp not in sys.path:
        sys.path.insert(0, tmp)
    importlib.invalidate_caches()
    return importlib.import_module(name), extra, mshape


def rs(r):
    return r.choice(["", "a", "hé", "abcdefgh", "x" * 17])


def stale_handle_scenario(M, extra, fail, tags):
    """a handle of an array item is taken, the item is replaced (same size, its dynamic fields divide the room differently), the
    handle is pickled: what comes back is a NEW handle - it reads the item as a fresh view does, and a fitting assignment through it
    stays inside the field (nothing of the old handle's stale bookkeeping travels with it)"""
    xo = common.import_xobjects()
    c0 = {"component": "pk", "corpus": "stale-handle-pickled"}
    more = {"t": "q"} if extra.startswith("t") else {"z": [1]} if extra.startswith("z") else {}
    try:
        buf = xo.ContextCpu().new_buffer(2048)
        arr = M.ArrNPS2([dict({"n": 1, "x": [1.0, 2.0, 3.0, 4.0], "s": "a", "y": [3]}, **more),
                         dict({"n": 2, "x": [7.0], "s": "b", "y": [80, 81, 82]}, **more)], _buffer=buf)
        other = M.PS2(dict({"n": 5, "x": [8.0], "s": "a", "y": [1, 2, 3, 4, 5, 6, 7]}, **more), _buffer=buf)
        h = arr[0]
        if int(h._size) != int(other._size):
            return
        arr[0] = other
        p = pickle.loads(pickle.dumps(h))
        fresh = M.PS2._from_buffer(p._buffer, int(p._offset))
        tags["corpus.stale-handle-pickled"] += 1
        if value(p) != value(fresh):
            fail("unpickled-handle-differs-from-view", f"the unpickled handle reads {str(value(p))[:160]}, a view of its bytes {str(value(fresh))[:160]}", c0)
            return
        lo = int(fresh.y._offset)
        hi = lo + int(fresh.y._get_size())
        before = bytes(p._buffer.to_bytearray(0, p._buffer.capacity))
        p.y = [9, 9, 9, 9, 9, 9, 9]
        after = bytes(p._buffer.to_bytearray(0, p._buffer.capacity))
        out = [i for i in range(len(before)) if before[i] != after[i] and not lo <= i < hi]
        if out:
            fail("write-through-unpickled-handle-outside-field", f"p.y = [9]*7 (it fits) changed bytes {out[:6]} outside the field's extent "
                 f"[{lo},{hi})", c0)
        elif [int(v) for v in M.PS2._from_buffer(p._buffer, int(p._offset)).y.to_nparray()] != [9] * 7:
            fail("unusable:write-lost", "p.y = [9]*7 through the unpickled handle did not reach the field", c0)
    except Exception as ex:
        fail("unusable:" + type(ex).__name__, f"stale handle pickled: {type(ex).__name__}: {str(ex)[:160]}", c0)


def ps2_args(r, extra):
    d = {"n": r.randint(-9, 9), "x": [float(r.randint(0, 9)) for _ in range(r.randrange(0, 4))], "s": rs(r),
         "y": [r.randint(-5, 5) for _ in range(r.randrange(0, 4))]}
    if extra.startswith("t"):
        d["t"] = rs(r)
    if extra.startswith("z"):
        d["z"] = [r.randint(-5, 5) for _ in range(r.randrange(0, 3))]
    return d


def value(obj):
    """deep value through the public accessors"""
    xo = common.import_xobjects()
    if obj is None:
        return None
    if hasattr(obj, "_xobject"):
        # by xobject field name, so that a dressed referent and the bare xobject of the same data compare equal
        return {obj._inverse_rename.get(f, f): value(getattr(obj, f)) for f in obj._fields}
    if isinstance(obj, xo.Struct):
        return {f.name: value(getattr(obj, f.name)) for f in obj._fields}
    if hasattr(obj, "_shape"):
        shape = [int(x) for x in obj._shape]
        return [value(obj[idx if len(idx) > 1 else idx[0]]) for idx in itertools.product(*[range(s) for s in shape])]
    if isinstance(obj, np.ndarray):
        return [float(x) for x in obj.reshape(-1)]
    if isinstance(obj, str):
        return obj
    return float(obj) if isinstance(obj, (float, np.floating)) else int(obj)


def xbuf(o):
    return o._xobject._buffer if hasattr(o, "_xobject") else o._buffer


def xoff(o):
    return int(o._xobject._offset if hasattr(o, "_xobject") else o._offset)


def xsize(o):
    x = o._xobject if hasattr(o, "_xobject") else o
    return int(x._get_size()) if hasattr(x, "_get_size") else int(x._size)


def run_all(tier, seed):
    xo = common.import_xobjects()
    r = random.Random(seed * 92821 + 11)
    fails, tags = [], collections.Counter()
    lines, expect, ctxs = [], [], []
    n_cases = {"quick": 25, "thorough": 3000}[tier]

    def fail(key, what, ctx):
        fails.append(common.Failure("oracle", "C20:" + key, what, ctx))

    with common.scratch_cwd() as tmp:
        M, extra, mshape = make_module(tmp, r)
        stale_handle_scenario(M, extra, fail, tags)
        for case in range(n_cases):
            if case % 8 == 7:
                M, extra, mshape = make_module(tmp, r)
            ctx = xo.ContextCpu()
            bufs = [ctx.new_buffer(r.choice([64, 512, 4096])) for _ in range(3)]
            holes = []
            for b in bufs:
                if r.random() < 0.5:
                    b.allocate(r.randrange(1, 30))
                if r.random() < 0.5:
                    n_ = r.choice([8, 24, 40])
                    holes.append((b, int(b.allocate(n_)), n_))     # freed after the objects exist: a hole below live data
            objs = []
            c0 = {"component": "pickle", "extra_dyn": extra, "mshape": mshape, "case": case}
            try:
                for _ in range(r.randrange(2, 7)):
                    b = r.choice(bufs)
                    k = r.choice(["PS1", "PS2", "PS3", "PS4", "PS5", "arr", "arrd", "PH1", "PH2"])
                    if k == "PS5":
                        # exactly ONE dynamically sized field (no stored field offsets at all)
                        objs.append(M.PS5(n=r.randint(-9, 9), x=[float(r.randint(0, 9)) for _ in range(r.randrange(0, 4))], _buffer=b))
                    elif k == "PS1":
                        objs.append(M.PS1(a=r.randint(-9, 9), b=1.5, _buffer=b))
                    elif k == "PS2":
                        objs.append(M.PS2(_buffer=b, **ps2_args(r, extra)))
                    elif k == "PS3":
                        tgt = M.PS1(a=r.randint(-9, 9), b=2.5, _buffer=b)
                        nm = int(np.prod([int(x) for x in M.PS3.m.ftype._shape]))
                        objs.append(M.PS3(inner=ps2_args(r, extra), r=r.choice([tgt, None]), k=r.randint(-9, 9),
                                          m=np.arange(nm, dtype="i2").reshape(M.PS3.m.ftype._shape), _buffer=b))
                    elif k == "PS4":
                        t1 = M.PS1(a=r.randint(-9, 9), b=3.5, _buffer=b)
                        t2 = M.PS2(_buffer=b, **ps2_args(r, extra))
                        pick = lambda: r.choice([t1, t2, None, ("PS1", {"a": r.randint(-9, 9), "b": 0.5})])
                        nrow = r.randrange(0, 3)
                        nw = r.randrange(0, 3)
                        objs.append(M.PS4(u=pick(), us=[pick(), pick()], rs=[r.choice([t1, None]) for _ in range(r.randrange(0, 3))],
                                          g=np.arange(nrow * 2, dtype="f8").reshape(nrow, 2), t=[rs(r) for _ in range(r.randrange(0, 3))],
                                          w=np.arange(4 * nw, dtype="i4").reshape(2, 2, nw), _buffer=b))
                    elif k == "arr":
                        objs.append(M.ArrNFloat64([float(r.randint(0, 9)) for _ in range(r.randrange(0, 5))], _buffer=b))
                    elif k == "arrd":
                        objs.append(M.ArrNPS2([ps2_args(r, extra) for _ in range(r.randrange(0, 3))], _buffer=b))
                    elif k == "PH1":
                        objs.append(M.PH1(a=r.randint(-9, 9), arr=[1.0, 2.0], _buffer=b))
                    else:
                        h1 = M.PH1(a=r.randint(-9, 9), arr=[3.0], _buffer=b)
                        objs.append(M.PH2(h=h1, rr=r.choice([h1, None]), queue=r.randint(-9, 9), _buffer=b))
                        if objs[-1].rr is h1 and r.random() < 0.6:
                            # plain Python attributes (not buffer data): the referent knows its holder - a cycle on the Python side
                            h1.owner = objs[-1]
                            objs[-1].note = "holder"
                            tags["python-side-cycle"] += 1
            except Exception as ex:
                fail("construction-raises", f"{type(ex).__name__}: {str(ex)[:200]}", c0)
                continue
            # allocator states a pickled buffer must carry over: holes between live objects, and no free space at the end
            for b, o_, n_ in holes:
                b.free(o_, n_)
                tags["buffer.hole"] += 1
            for b in bufs:
                if r.random() < 0.4 and b.chunks and b.chunks[-1].end == b.capacity:
                    b.allocate(b.chunks[-1].end - b.chunks[-1].start)
                    tags["buffer.exactly-full-tail"] += 1
            # handles of NESTED parts and of referents are objects too: pickled together with their container they share its buffer
            pool = list(objs)
            for o in objs:
                if type(o).__name__ == "PH2" and r.random() < 0.6:
                    pool.append(o.h)
                    if o.rr is not None and hasattr(o.rr, "_xobject"):
                        pool.append(o.rr)
                    tags["pool.nested-handle"] += 1
                if type(o).__name__ == "PS3" and r.random() < 0.4:
                    pool.append(o.inner)
            sub = r.sample(pool, r.randrange(1, len(pool) + 1))
            before = [value(o) for o in sub]
            kinds = [type(o).__name__ for o in sub]
            c1 = dict(c0, kinds=kinds)
            try:
                out = pickle.loads(pickle.dumps(sub))
            except Exception as ex:
                fail("pickle-raises:" + type(ex).__name__, f"pickling {kinds}: {str(ex)[:200]}", c1)
                continue
            tags["roundtrips"] += 1
            for kk in kinds:
                tags["kind." + kk[:6]] += 1
            # ---- equal value at every field, fully usable
            ok = True
            for o, v0, kk in zip(out, before, kinds):
                try:
                    v1 = value(o)
                except Exception as ex:
                    fail("unusable:" + type(ex).__name__, f"reading an unpickled {kk} raises {type(ex).__name__}: {str(ex)[:160]}", c1)
                    ok = False
                    continue
                if v1 != v0:
                    fail("value-differs", f"unpickled {kk} reads {str(v1)[:200]}, the original holds {str(v0)[:200]}", c1)
                    ok = False
            # "fully usable": the parts of a hybrid object come back as what they were (dressed hybrid objects, not bare structs)
            for o, o0, kk in zip(out, sub, kinds):
                if hasattr(o0, "_xobject"):
                    for ff in o0._XoStruct._fields:
                        if not hasattr(ff.ftype, "_DressingClass"):
                            continue    # a reference is read back as the bare struct unless it was assigned in this process: by design
                        f = ff.name
                        a0, a1 = getattr(o0, f), getattr(o, f)
                        if hasattr(a0, "_xobject") and type(a1).__name__ != type(a0).__name__:
                            fail("part-not-dressed", f"unpickled {kk}: attribute {f} is a {type(a1).__name__}, it was a {type(a0).__name__}", c1)
                            ok = False
            if not ok:
                continue
            # ---- pickling is repeatable: the originals are untouched, and both they and the copies can be pickled again
            try:
                if [value(o) for o in sub] != before:
                    fail("original-changed", f"pickling {kinds} changed the value of an original", c1)
                for what, group in (("the originals a second time", sub), ("the unpickled objects", out), ("another object of the same context", [r.choice(objs)])):
                    try:
                        again = pickle.loads(pickle.dumps(group))
                    except Exception as ex:
                        fail("second-pickle-raises:" + type(ex).__name__, f"pickling {what}: {str(ex)[:160]}", c1)
                        break
                    if group is not sub and group is not out:
                        value(again[0])
                    elif [value(o) for o in again] != before:
                        fail("value-differs", f"pickling {what} gives different values", c1)
                tags["repickle"] += 1
            except Exception as ex:
                fail("unusable:" + type(ex).__name__, f"after pickling, reading raises {type(ex).__name__}: {str(ex)[:160]}", c1)
            # ---- sharing pattern vs the model
            ob = []
            for o in sub:
                b = xbuf(o)
                if not any(b is x for x in ob):
                    ob.append(b)
            idx_old = [[i for i, x in enumerate(bufs) if x is xbuf(o)][0] for o in sub]
            nb = []
            for o in out:
                b = xbuf(o)
                if not any(b is x for x in nb):
                    nb.append(b)
            idx_new = [len(bufs) + [i for i, x in enumerate(nb) if x is xbuf(o)][0] for o in out]
            lines.append(f"rt {len(bufs)} " + ",".join(f"{bi}:{xoff(o)}:0" for bi, o in zip(idx_old, sub)))
            expect.append(f"bufs {len(bufs) + len(nb)} handles " + ",".join(f"{bi}:{xoff(o)}:0" for bi, o in zip(idx_new, out)))
            ctxs.append(c1)
            for i, j in itertools.combinations(range(len(sub)), 2):
                if (xbuf(sub[i]) is xbuf(sub[j])) != (xbuf(out[i]) is xbuf(out[j])):
                    fail("sharing-changed", f"objects {i},{j} ({kinds[i]},{kinds[j]}) shared a buffer: {xbuf(sub[i]) is xbuf(sub[j])}, after unpickling: {xbuf(out[i]) is xbuf(out[j])}", c1)
            for o in out:
                if any(xbuf(o) is b for b in bufs):
                    fail("not-independent", "an unpickled object lives in the original's buffer", c1)
            # ---- independence: write through the copy, the original is unchanged, and vice versa
            for o, orig, kk in zip(out, sub, kinds):
                try:
                    if kk == "PS1" or kk == "PH1":
                        o.a = 1234
                        if int(orig.a) == 1234 and before[sub.index(orig)] != value(orig):
                            fail("write-shows-through", f"writing an unpickled {kk} changed the original", c1)
                        orig.a = 4321
                        if int(o.a) != 1234:
                            fail("write-shows-through", f"writing the original {kk} changed the unpickled object", c1)
                    elif kk == "PS2":
                        o.n = 77
                        o.s = "z"
                        if int(o.n) != 77 or o.s != "z":
                            fail("unusable:write", "a write to an unpickled PS2 is not read back", c1)
                        if int(orig.n) == 77 and before[sub.index(orig)]["n"] != 77:
                            fail("write-shows-through", "writing an unpickled PS2 changed the original", c1)
                    elif kk == "PS3":
                        o.inner.n = 55
                        o.k = 3
                        if int(o.inner.n) != 55 or int(o.k) != 3:
                            fail("unusable:write", "a write to an unpickled PS3 is not read back", c1)
                    elif kk == "ArrNFloat64" and len(o) > 0:
                        o[0] = 99.0
                        if float(o[0]) != 99.0 or float(orig[0]) == 99.0 and before[sub.index(orig)][0] != 99.0:
                            fail("write-shows-through", "array item write crosses between original and unpickled object", c1)
                    elif kk == "PH2":
                        o.queue = 8
                        o.h.a = 66
                        if int(o.queue) != 8 or int(o._xobject.q) != 8 or int(o.h.a) != 66 or int(o._xobject.h.a) != 66:
                            fail("unusable:write", "a write to an unpickled hybrid object is not reflected in its buffer data", c1)
                    tags["writes"] += 1
                except Exception as ex:
                    fail("unusable:" + type(ex).__name__, f"writing an unpickled {kk} raises {type(ex).__name__}: {str(ex)[:160]}", c1)
            # ---- "fully usable": an unpickled struct / array is a value like any other - the source of a copy (into other buffers)
            for o, kk in zip(out, kinds):
                if hasattr(o, "_xobject") or kk not in ("PS1", "PS2", "PS3", "PS5", "ArrNFloat64", "ArrNPS2"):
                    continue
                try:
                    want = value(o)
                    for dest in (xo.ContextCpu().new_buffer(64), xo.ContextCpu().new_buffer(4096)):   # (not the unpickled buffer: its allocator state is compared below)
                        cp = type(o)(o, _buffer=dest)
                        if value(cp) != want:
                            fail("unusable:copy-differs", f"a copy constructed from an unpickled {kk} reads {str(value(cp))[:120]}, the unpickled object {str(want)[:120]}", c1)
                    tags["copies-of-unpickled"] += 1
                except Exception as ex:
                    fail("unusable:copy:" + type(ex).__name__, f"copy-constructing from an unpickled {kk} raises {type(ex).__name__}: {str(ex)[:160]}", c1)
            # ---- the unpickled buffers are working allocators
            for b_old, b_new in zip(ob, nb):
                try:
                    if b_new.capacity != b_old.capacity or b_new.get_free() != b_old.get_free():
                        fail("allocator-state-differs", f"capacity/free {b_new.capacity}/{b_new.get_free()} vs original {b_old.capacity}/{b_old.get_free()}", c1)
                    seq = [r.randrange(1, 50) for _ in range(4)]
                    offs_new, offs_old = [], []
                    for n in seq:
                        offs_new.append(int(b_new.allocate(n)))
                        offs_old.append(int(b_old.allocate(n)))
                    if offs_new != offs_old:
                        fail("allocator-behaves-differently", f"allocate{seq}: unpickled buffer {offs_new}, original {offs_old}", c1)
                    live = [(xoff(o), xsize(o)) for o in out if xbuf(o) is b_new]
                    for n, a in zip(seq, offs_new):
                        for lo, ln in live:
                            if not (a + n <= lo or lo + ln <= a):
                                fail("allocation-overlaps-object", f"allocate({n}) on the unpickled buffer returned {a}, inside the object at [{lo},{lo + ln})", c1)
                    b_new.free(offs_new[0], seq[0])
                    b_old.free(offs_old[0], seq[0])
                    if b_new.get_free() != b_old.get_free():
                        fail("allocator-behaves-differently", "free() differs", c1)
                    tags["allocator"] += 1
                except Exception as ex:
                    fail("allocator-raises:" + type(ex).__name__, f"{str(ex)[:200]}", c1)
            # values still intact after the allocations
            for o, kk in zip(out, kinds):
                try:
                    value(o)
                except Exception as ex:
                    fail("unusable-after-allocations:" + type(ex).__name__, f"{kk}: {str(ex)[:160]}", c1)
    got = common.run_driver("pk", lines)
    mism = []
    for l, e, g, c in zip(lines, expect, got, ctxs):
        if e != g:
            mism.append(common.Failure("tie", "pk-tie:rt", f"`{l}`: implementation `{e}` model `{g}`", c))
    return {"failures": fails, "mismatches": mism, "lines": len(lines), "distinct": tags.get("roundtrips", 0), "tags": dict(tags),
            "samples": lines[:4]}
