"""The program text each CONTEXT hands to its compiler (C15).

`ContextPyopencl.build_kernels` and `ContextCupy.build_kernels` assemble headers + accessor sources of the kernel's classes +
kernel sources, specialise them and pass the text to `pyopencl.Program` / `cupy.RawModule`.  Neither package (nor a device) exists
here, so this script - run in a process of its own, before xobjects is imported - installs stand-ins for the two packages that
accept everything and RECORD the text they are given; the contexts' own `build_kernels` run unchanged.  For every type of the capi
corpus + random types, the three texts (cpu with compile=False, opencl, cuda) are printed as one JSON line; everything behind the
marker passed as `extra_headers` is the accessor API + kernel.

usage: gpuprobe.py SEED N
"""
import json
import os
import random
import sys
import types

sys.path.insert(0, os.path.dirname(os.path.dirname(os.path.abspath(__file__))))

CAPTURED = []
MARK = "/*XOVERIF-END-OF-HEADERS*/"


class Anything:
    """a class that can be subclassed, called, indexed and asked for any attribute"""

    def __init__(self, *a, **k):
        pass

    def __getattr__(self, name):
        if name.startswith("__"):
            raise AttributeError(name)
        return Anything()

    def __call__(self, *a, **k):
        return Anything()


class Program(Anything):
    def __init__(self, context, source):
        CAPTURED.append(("opencl", source))

    def build(self, *a, **k):
        return self


class RawModule(Anything):
    def __init__(self, code=None, **k):
        CAPTURED.append(("cuda", code))


class Fake(types.ModuleType):
    def __getattr__(self, name):
        if name.startswith("__"):
            raise AttributeError(name)
        return Anything


def install():
    for name in ("pyopencl", "pyopencl.array", "pyopencl._cl", "cupy", "cupyx", "cupyx.scipy", "cupyx.scipy.interpolate",
                 "cupyx.scipy.signal", "cupyx.scipy.special", "cupyx.scipy.stats", "cupyx.scipy.fftpack", "cupyx.scipy.sparse"):
        m = Fake(name)
        m.__path__ = []
        sys.modules[name] = m
    for name in list(sys.modules):
        if "." in name and name.split(".")[0] in ("pyopencl", "cupy", "cupyx"):
            parent, child = name.rsplit(".", 1)
            setattr(sys.modules[parent], child, sys.modules[name])
    sys.modules["pyopencl"].Program = Program
    sys.modules["cupy"].RawModule = RawModule


def main():
    seed, n = int(sys.argv[1]), int(sys.argv[2])
    install()
    from harness import common, capi, types as T
    xo = common.import_xobjects()
    from xobjects import context_pyopencl, context_cupy, context
    if not (context_pyopencl._enabled and context_cupy._enabled):
        print(json.dumps({"error": "stand-in packages were not picked up"}))
        return
    r = random.Random(seed * 6151 + 3)
    # different classes under ONE C name, built one after the other in this process: every build must describe ITS class
    twins = [("array", ("scalar", 0), [3, 4], [0, 1]), ("array", ("scalar", 0), [3, 4], [1, 0]),
             ("struct", "Twin", [("a", ("scalar", 2)), ("b", ("array", ("scalar", 4), [None], [0]))]),
             ("struct", "Twin", [("b", ("array", ("scalar", 4), [None], [0])), ("a", ("scalar", 2)), ("c", ("scalar", 0))])]
    tys = list(capi.CORPUS) + twins + capi.gen_types(r, n)
    for t in tys:
        cache = {}
        cls = T.build(t, cache)
        rec = {"type": T.sexp(t)}
        ksrc = f"/*gpukern*/ void kprobe({cls._c_type} obj){{ }}"
        for tgt in ("cpu", "opencl", "cuda"):
            kd = {"kprobe": xo.Kernel(args=[xo.Arg(cls, name="obj")], n_threads=1)}
            try:
                if tgt == "cpu":
                    ks = xo.ContextCpu().build_kernels(sources=[ksrc], kernel_descriptions=kd, extra_headers=[MARK], compile=False)
                    rec[tgt] = ks["kprobe"].specialized_source
                else:
                    C = context_pyopencl.ContextPyopencl if tgt == "opencl" else context_cupy.ContextCupy
                    ctx = object.__new__(C)
                    context.XContext.__init__(ctx)
                    ctx.context = None
                    ctx.default_block_size = 256
                    ctx.default_shared_mem_size_bytes = 0
                    del CAPTURED[:]
                    ctx.build_kernels(sources=[ksrc], kernel_descriptions=kd, extra_headers=[MARK])
                    got = [s for k_, s in CAPTURED if k_ == tgt]
                    rec[tgt] = got[-1] if got else None
            except Exception as ex:
                rec[tgt] = None
                rec[tgt + "_error"] = f"{type(ex).__name__}: {str(ex)[:200]}"
        print(json.dumps(rec))


if __name__ == "__main__":
    main()
