"""Shared infrastructure of the xobjects verification runner.

* builds the Lean project (serialised by a lock), audits it (forbidden tokens, `#print axioms`
  of every property theorem, pinned obligation list);
* drives the Lean model through the line protocol (`lake env lean --run Driver.lean <component>`);
* imports the REAL xobjects from /repo's working tree;
* decision / evidence / replay / known-findings plumbing.
"""
import fcntl
import hashlib
import json
import os
import re
import subprocess
import sys
import time

VERIF = os.path.dirname(os.path.dirname(os.path.abspath(__file__)))
LEAN = os.path.join(VERIF, "lean")
REPO = os.environ.get("XOBJECTS_REPO", "/repo")
ALLOWED_AXIOMS = {"propext", "Classical.choice", "Quot.sound"}
FORBIDDEN = re.compile(
    r"\bsorry\b|\badmit\b|^\s*axiom\s|native_decide|bv_decide|implemented_by|\bunsafe\s|maxHeartbeats\s+0\b"
)


class Infra(Exception):
    """infrastructure failure: exit 2, never a VIOLATION"""


def import_xobjects():
    """the real library, from /repo's current working tree"""
    if REPO not in sys.path:
        sys.path.insert(0, REPO)
    import xobjects  # noqa

    here = os.path.realpath(os.path.dirname(xobjects.__file__))
    want = os.path.realpath(os.path.join(REPO, "xobjects"))
    if here != want:
        raise Infra(f"xobjects imported from {here}, expected {want}")
    return xobjects


# --------------------------------------------------------------------------- Lean side


def _strip_comments(src):
    out, i, depth, n = [], 0, 0, len(src)
    while i < n:
        if src.startswith("/-", i):
            depth += 1
            i += 2
        elif depth and src.startswith("-/", i):
            depth -= 1
            i += 2
        elif depth:
            if src[i] == "\n":
                out.append("\n")
            i += 1
        elif src.startswith("--", i):
            while i < n and src[i] != "\n":
                i += 1
        else:
            out.append(src[i])
            i += 1
    return "".join(out)


def lean_sources():
    res = []
    for root, dirs, files in os.walk(LEAN):
        dirs[:] = [d for d in dirs if d not in (".lake", ".git")]
        for f in sorted(files):
            if f.endswith(".lean"):
                res.append(os.path.join(root, f))
    return sorted(res)


def sources_hash():
    h = hashlib.sha256()
    for p in lean_sources():
        h.update(p.encode())
        with open(p, "rb") as fh:
            h.update(fh.read())
    with open(os.path.join(VERIF, "checks", "obligations.json"), "rb") as fh:
        h.update(fh.read())
    return h.hexdigest()


def prop_theorems():
    """{prop: [theorem names]} read from Xo/Props/Cxx.lean themselves"""
    res = {}
    pdir = os.path.join(LEAN, "Xo", "Props")
    for f in sorted(os.listdir(pdir)):
        m = re.match(r"(C\d\d)\.lean$", f)
        if not m:
            continue
        src = _strip_comments(open(os.path.join(pdir, f)).read())
        ns = re.findall(r"^namespace\s+(\S+)", src, re.M)
        names = re.findall(r"^theorem\s+(" + m.group(1) + r"_\w+)", src, re.M)
        res[m.group(1)] = [(ns[0] + "." if ns else "") + n for n in names]
    return res


def build_and_audit(log=None):
    """lake build + audit; cached on the hash of all Lean sources.  Returns the audit dict:
    {ok, build_ok, build_log, forbidden: [...], axioms: {thm: [axioms]}, theorems: {prop: [...]}}"""
    os.makedirs(os.path.join(LEAN, ".lake"), exist_ok=True)
    lock = open(os.path.join(LEAN, ".lake", "verif.lock"), "w")
    fcntl.flock(lock, fcntl.LOCK_EX)
    try:
        gen_report = regenerate_from_source()
        hsh = sources_hash()
        cache = os.path.join(LEAN, ".lake", "verif_audit.json")
        if os.path.exists(cache):
            try:
                c = json.load(open(cache))
                if c.get("hash") == hsh and c.get("build_ok"):
                    # still make sure the olean files are there (no-op build is ~0.3 s)
                    p = subprocess.run(["lake", "build"], cwd=LEAN, capture_output=True, text=True)
                    if p.returncode == 0:
                        return c
            except Exception:
                pass
        t0 = time.time()
        p = subprocess.run(["lake", "build"], cwd=LEAN, capture_output=True, text=True)
        audit = {"hash": hsh, "build_ok": p.returncode == 0, "build_s": round(time.time() - t0, 1)}
        blog = p.stdout + p.stderr
        audit["build_log"] = "\n".join(
            l for l in blog.splitlines() if re.search(r"error|✖|sorry", l)
        )[:4000]
        # forbidden tokens outside comments
        forb = []
        for path in lean_sources():
            src = _strip_comments(open(path).read())
            for i, line in enumerate(src.splitlines(), 1):
                if FORBIDDEN.search(line):
                    forb.append(f"{os.path.relpath(path, LEAN)}:{i}: {line.strip()[:120]}")
        audit["forbidden"] = forb
        thms = prop_theorems()
        audit["theorems"] = thms
        axioms = {}
        if audit["build_ok"]:
            names = [n for v in thms.values() for n in v]
            imports = "\n".join(f"import Xo.Props.{p_}" for p_ in sorted(thms))
            body = "\n".join(f"#print axioms {n}" for n in names)
            apath = os.path.join(LEAN, ".lake", "Audit.lean")
            open(apath, "w").write(imports + "\n" + body + "\n")
            q = subprocess.run(["lake", "env", "lean", apath], cwd=LEAN, capture_output=True, text=True)
            out = q.stdout + q.stderr
            for m in re.finditer(r"'([^']+)' depends on axioms: \[([^\]]*)\]", out):
                axioms[m.group(1)] = [a.strip() for a in m.group(2).replace("\n", " ").split(",") if a.strip()]
            for m in re.finditer(r"'([^']+)' does not depend on any axioms", out):
                axioms[m.group(1)] = []
            audit["audit_errors"] = "\n".join(l for l in out.splitlines() if "error" in l)[:2000]
        audit["axioms"] = axioms
        audit["gen"] = audit_generated(gen_report) if audit["build_ok"] else {"report": gen_report, "modules": {}, "axioms": {}}
        json.dump(audit, open(cache, "w"), indent=1)
        return audit
    finally:
        fcntl.flock(lock, fcntl.LOCK_UN)
        lock.close()


def regenerate_from_source():
    """second tie (DESIGN.md section 16): translate the arithmetic helpers of /repo's CURRENT source into lean/XoGen/Src/*.lean"""
    sys.path.insert(0, os.path.join(VERIF, "checks"))
    try:
        import pygen
        return pygen.generate(REPO, os.path.join(LEAN, "XoGen", "Src"))
    finally:
        sys.path.pop(0)


def gen_obligations():
    """{tie module: {"theorems": {name: [properties]}, "source": "..."}} from checks/obligations.json["_generated"]"""
    return json.load(open(os.path.join(VERIF, "checks", "obligations.json"))).get("_generated", {})


def audit_generated(gen_report):
    """build each tie module on its own (a failure is attributed to the helpers it proves, not to the whole project) and
    audit the axioms of the equivalence theorems"""
    res = {"report": gen_report, "modules": {}, "axioms": {}}
    obl = gen_obligations()
    for mod in sorted(obl):
        p = subprocess.run(["lake", "build", mod], cwd=LEAN, capture_output=True, text=True)
        log = "\n".join(l for l in (p.stdout + p.stderr).splitlines() if re.search(r"error|✖", l))[:1500]
        res["modules"][mod] = {"ok": p.returncode == 0, "log": log}
    okmods = [m for m, r in res["modules"].items() if r["ok"]]
    if okmods:
        names = [n for m in okmods for n in obl[m]["theorems"]]
        apath = os.path.join(LEAN, ".lake", "AuditGen.lean")
        open(apath, "w").write("\n".join(f"import {m}" for m in okmods) + "\n" + "\n".join(f"#print axioms {n}" for n in names) + "\n")
        q = subprocess.run(["lake", "env", "lean", apath], cwd=LEAN, capture_output=True, text=True)
        out = q.stdout + q.stderr
        for m in re.finditer(r"'([^']+)' depends on axioms: \[([^\]]*)\]", out):
            res["axioms"][m.group(1)] = [a.strip() for a in m.group(2).replace("\n", " ").split(",") if a.strip()]
        for m in re.finditer(r"'([^']+)' does not depend on any axioms", out):
            res["axioms"][m.group(1)] = []
    return res


def gen_problems(prop, audit):
    """(names of source-equivalence theorems this property rests on, discharged ones, problems)"""
    obl = gen_obligations()
    gen = audit.get("gen") or {"modules": {}, "axioms": {}, "report": {}}
    expected, discharged, problems = [], [], []
    for mod, spec in sorted(obl.items()):
        for thm, props in spec["theorems"].items():
            if prop not in props:
                continue
            expected.append(thm)
            st = gen["modules"].get(mod)
            if st is None or not st["ok"]:
                why = (st or {}).get("log", "not built")
                rep = "; ".join(f"{k}: {v}" for k, v in (gen.get("report") or {}).items() if v != "ok")
                problems.append(f"source tie {thm} ({spec.get('source', mod)}): the definition translated from /repo's current source is no "
                                f"longer proved equal to the model [{rep}] {why[:400]}")
                continue
            ax = gen["axioms"].get(thm)
            if ax is None:
                problems.append(f"source tie {thm}: no `#print axioms` result")
            elif not set(ax) <= ALLOWED_AXIOMS:
                problems.append(f"source tie {thm} depends on axioms {ax}")
            else:
                discharged.append(thm)
    return expected, discharged, problems


def obligations_for(prop, audit):
    """(expected theorem names, discharged names, problems[])"""
    pinned = json.load(open(os.path.join(VERIF, "checks", "obligations.json")))
    expected = pinned.get(prop, [])
    problems = []
    if not audit.get("build_ok"):
        problems.append("lake build failed: " + audit.get("build_log", "")[:600])
    if audit.get("forbidden"):
        problems.append("forbidden tokens: " + "; ".join(audit["forbidden"][:5]))
    present = set(audit.get("theorems", {}).get(prop, []))
    discharged = []
    for t in expected:
        if t not in present:
            problems.append(f"theorem {t} missing from Xo/Props/{prop}.lean")
            continue
        ax = audit.get("axioms", {}).get(t)
        if ax is None:
            problems.append(f"theorem {t}: no `#print axioms` result")
        elif not set(ax) <= ALLOWED_AXIOMS:
            problems.append(f"theorem {t} depends on axioms {ax}")
        else:
            discharged.append(t)
    for t in sorted(present - set(expected)):
        problems.append(f"theorem {t} is in Props/{prop}.lean but not pinned in checks/obligations.json")
    ge, gd, gp = gen_problems(prop, audit)
    return expected + ge, discharged + gd, problems + gp


def obligations_split(prop, audit):
    """(expected, discharged, problems) of the property's own theorems and (expected, discharged, problems) of the source-tie theorems it
    lists, separately: the source tie is a SECOND tie of the model's helper definitions to the code, next to the behavioural one"""
    full_e, full_d, full_p = obligations_for(prop, audit)
    ge, gd, gp = gen_problems(prop, audit)
    return ([t for t in full_e if t not in ge], [t for t in full_d if t not in gd], [x for x in full_p if x not in gp]), (ge, gd, gp)


MEM_LIMIT = 16 << 30       # address space of a harness process that drives the real code (a changed library may ask for anything)


def limit_memory():
    """in a harness child: allocations beyond MEM_LIMIT raise MemoryError in the library call that asks for them"""
    import resource
    _soft, hard = resource.getrlimit(resource.RLIMIT_AS)
    resource.setrlimit(resource.RLIMIT_AS, (MEM_LIMIT if hard == resource.RLIM_INFINITY else min(MEM_LIMIT, hard), hard))


def _unlimit_memory():
    """preexec of the model driver: Lean maps large address ranges; the limit is for the code under test only"""
    import resource
    _soft, hard = resource.getrlimit(resource.RLIMIT_AS)
    resource.setrlimit(resource.RLIMIT_AS, (hard, hard))


def run_driver(component, lines, timeout=600):
    """feed `lines` to the model driver, return the list of answer lines"""
    if not lines:
        return []
    inp = "\n".join(lines) + "\n"
    p = subprocess.run(
        ["lake", "env", "lean", "--run", "Driver.lean", component],
        cwd=LEAN, input=inp, capture_output=True, text=True, timeout=timeout, preexec_fn=_unlimit_memory,
    )
    if p.returncode != 0:
        raise Infra(f"driver {component} exited {p.returncode}: {p.stderr[:500]}")
    out = p.stdout.split("\n")
    if out and out[-1] == "":
        out.pop()
    return out


def run_driver_sharded(component, cases, nproc=None, timeout=900):
    """cases: list of lists of lines (each case starts by resetting the model state).
    Returns the list of answer-line lists, one per case."""
    import concurrent.futures as cf

    if not cases:
        return []
    nproc = nproc or min(16, max(1, len(cases) // 50))
    shards = [cases[i::nproc] for i in range(nproc)]

    def work(shard):
        flat = [l for c in shard for l in c]
        out = run_driver(component, flat, timeout)
        if len(out) != len(flat):
            raise Infra(f"driver {component}: {len(flat)} lines in, {len(out)} out")
        res, k = [], 0
        for c in shard:
            res.append(out[k : k + len(c)])
            k += len(c)
        return res

    with cf.ThreadPoolExecutor(nproc) as ex:
        parts = list(ex.map(work, shards))
    res = [None] * len(cases)
    for s, part in enumerate(parts):
        for j, r in enumerate(part):
            res[s + j * nproc] = r
    return res


def cksum(bs):
    h = 7
    for b in bytes(bs):
        h = (h * 31 + b + 1) % 1000000007
    return h


# --------------------------------------------------------------------------- results


class Failure:
    """a concrete input on which the property fails on the real code (oracle) or on which the model
    and the code differ (tie)"""

    def __init__(self, kind, key, what, replay):
        self.kind, self.key, self.what, self.replay = kind, key, what, replay

    def to_json(self):
        return {"kind": self.kind, "key": self.key, "what": self.what, "replay": self.replay}


def load_known():
    p = os.path.join(VERIF, "known_findings.json")
    if not os.path.exists(p):
        return []
    return json.load(open(p)).get("findings", [])


def match_known(prop, failure, known):
    for k in known:
        if k.get("property") != prop:
            continue
        if re.search(k["key_regex"], failure.key):
            return k
    return None


# --------------------------------------------------------------------------- scratch directories
import contextlib
import shutil
import tempfile


@contextlib.contextmanager
def scratch_cwd(prefix="xoverif-"):
    """run a block (cffi builds write into the cwd) inside a fresh directory outside /repo and /verif; removed afterwards"""
    old = os.getcwd()
    d = tempfile.mkdtemp(prefix=prefix)
    os.chdir(d)
    try:
        yield d
    finally:
        os.chdir(old)
        shutil.rmtree(d, ignore_errors=True)
