"""Allocator component: history generator, driver of the REAL XBuffer classes, line-protocol
expectations for the Lean model, and the model-independent shadow-bitmap oracle (C04, C12)."""
import collections
import itertools
import random

from . import common

KINDS = ("numpy", "bytearray")


def make_buffer(xo, kind, cap, align, gs):
    from xobjects.context_cpu import BufferByteArray, BufferNumpy

    cls = BufferNumpy if kind == "numpy" else BufferByteArray
    return cls(capacity=cap, context=xo.ContextCpu(), default_alignment=align, grow_step=gs)


def buf_bytes(b):
    return bytes(bytearray(b.buffer))


def state_line(b):
    chunks = " ".join(f"{c.start}:{c.end}" for c in b.chunks)
    return f"cap {b.capacity} free {b.get_free()} chunks [{chunks}] sum {common.cksum(buf_bytes(b))}"


def pattern(seed, n):
    r = random.Random(seed)
    return bytes(r.randrange(1, 256) for _ in range(n))


class Shadow:
    """independent specification: one byte of ownership per byte of capacity
    0 = free, 1 = live, 2 = lost to alignment padding"""

    def __init__(self, cap, align):
        self.own = bytearray(cap)
        self.align = align
        self.live = []  # [offset, size, content]

    def first_fit(self, n, a):
        own, cap = self.own, len(self.own)
        x = 0
        while x + n <= cap:
            if x % a == 0 and all(own[i] == 0 for i in range(x, x + n)):
                return x
            x += 1
        return None


class CaseRun:
    """runs one history on the real buffer; collects model lines/expectations, oracle failures, tags"""

    def __init__(self, xo, cfg):
        self.xo, self.cfg = xo, cfg
        self.lines, self.expect, self.fail, self.tags = [], [], [], collections.Counter()
        self.ops_done = []

    def failure(self, prop, key, what):
        self.fail.append(common.Failure("oracle", f"{prop}:{key}", what,
                                        {"component": "alloc", "config": self.cfg, "ops": list(self.ops_done)}))

    def run(self, opgen):
        kind, cap, align, gs = self.cfg["kind"], self.cfg["cap"], self.cfg["align"], self.cfg["grow_step"]
        b = make_buffer(self.xo, kind, cap, align, gs)
        sh = Shadow(cap, align)
        self.lines.append(f"new {cap} {align} {gs if gs is not None else '-'}")
        self.expect.append("ok " + state_line(b))
        for op in opgen(b, sh):
            self.ops_done.append(op)
            if not self.step(b, sh, op):
                break
        return self

    def check_common(self, b, sh, what):
        if b.capacity < len(sh.own):
            self.failure("C12", "capacity-shrank", f"{what}: capacity {len(sh.own)} -> {b.capacity}")
            return
        if len(buf_bytes(b)) != b.capacity:
            self.failure("C04", "storage-size", f"{what}: storage has {len(buf_bytes(b))} bytes, capacity {b.capacity}")
        free = sum(1 for x in sh.own if x == 0)
        if b.get_free() != free:
            self.failure("C12", "free-total", f"{what}: get_free()={b.get_free()} but {free} bytes are neither live nor lost")
        mem = buf_bytes(b)
        for (o, n, content) in sh.live:
            if mem[o:o + n] != content:
                self.failure("C04", "data-lost", f"{what}: live region ({o},{n}) no longer holds its bytes")
                break

    def step(self, b, sh, op):
        kind = op[0]
        if kind == "alloc":
            _, n, aligned = op
            a = sh.align if aligned else 1
            self.lines.append(f"alloc {n} {'aligned' if aligned else 'packed'}")
            want = sh.first_fit(n, a) if n > 0 else None
            oldcap = b.capacity
            try:
                o = b.allocate(n, align=aligned)
            except Exception as e:  # a request must always terminate with a result
                self.expect.append(f"err {type(e).__name__}")
                self.failure("C12", f"allocate-raises:{type(e).__name__}",
                             f"allocate({n}, align={aligned}) raised {type(e).__name__} (cap {oldcap}, grow_step {b.grow_step})")
                return False
            self.expect.append(f"off {o} " + state_line(b))
            grew = b.capacity != oldcap
            self.tags["alloc.grew" if grew else "alloc.nogrow"] += 1
            if n == 0:
                self.tags["alloc.size0"] += 1
            if b.capacity < oldcap:
                self.failure("C12", "capacity-shrank", f"capacity {oldcap} -> {b.capacity}")
                return False
            sh.own.extend(bytes(b.capacity - oldcap))
            if o + n > b.capacity or o < 0:
                self.failure("C04", "out-of-bounds", f"allocate({n}) returned {o}, capacity {b.capacity}")
                return False
            if o % a != 0:
                self.failure("C04", "misaligned", f"allocate({n}, align={aligned}) returned {o}, alignment {a}")
            if any(sh.own[i] == 1 for i in range(o, o + n)):
                self.failure("C04", "overlap", f"allocate({n}) returned {o}, overlapping a live region")
                return False
            if n > 0:
                if want is not None:
                    self.tags["alloc.fit-existed"] += 1
                    if grew:
                        self.failure("C12", "grew-although-fit", f"allocate({n}) grew the buffer although {want} fits")
                    elif o != want:
                        self.failure("C12", "not-first-fit", f"allocate({n}, a={a}) returned {o}; lowest fitting address is {want}")
                elif not grew:
                    self.failure("C12", "served-from-nonfree", f"allocate({n}) returned {o} without growth although nothing fitted")
            # bytes skipped between the start of the free run and the aligned offset are lost
            i = o
            while i > 0 and sh.own[i - 1] == 0:
                i -= 1
            if i < o:
                self.tags["alloc.padding"] += 1
            for j in range(i, o):
                sh.own[j] = 2
            for j in range(o, o + n):
                sh.own[j] = 1
            mem = buf_bytes(b)
            sh.live.append([o, n, mem[o:o + n]])
            self.check_common(b, sh, f"after allocate({n})")
        elif kind == "free":
            _, idx = op
            o, n, _ = sh.live.pop(idx)
            self.lines.append(f"free {o} {n}")
            if not b.chunks:
                self.tags["free.full-buffer"] += 1
            before = len(b.chunks)
            try:
                b.free(o, n)
            except Exception as e:  # freeing a live region always succeeds
                self.expect.append(f"err {type(e).__name__}")
                self.failure("C12", f"free-raises:{type(e).__name__}:{'full' if before == 0 else 'nonfull'}",
                             f"free({o},{n}) raised {type(e).__name__} with {before} free chunks")
                return False
            self.expect.append("ok " + state_line(b))
            self.tags["free.merged" if len(b.chunks) <= before else "free.separate"] += 1
            for j in range(o, o + n):
                sh.own[j] = 0
            self.check_common(b, sh, f"after free({o},{n})")
            # coalescing: the freed bytes and their free neighbours must be servable as one run
            if n > 0:
                lo, hi = o, o + n
                while lo > 0 and sh.own[lo - 1] == 0:
                    lo -= 1
                while hi < len(sh.own) and sh.own[hi] == 0:
                    hi += 1
                if not any(c.start <= lo and hi <= c.end for c in b.chunks):
                    self.failure("C12", "not-coalesced", f"after free({o},{n}) the free run [{lo},{hi}) is not one chunk")
        elif kind == "grow":
            _, n = op
            self.lines.append(f"grow {n}")
            oldcap = b.capacity
            try:
                b.grow(n)
            except Exception as e:
                self.expect.append(f"err {type(e).__name__}")
                self.failure("C04", f"grow-raises:{type(e).__name__}", f"grow({n}) raised {type(e).__name__}")
                return False
            self.expect.append("ok " + state_line(b))
            self.tags["grow"] += 1
            if b.capacity != oldcap + n:
                self.failure("C04", "grow-amount", f"grow({n}): capacity {oldcap} -> {b.capacity}")
                return False
            sh.own.extend(bytes(n))
            self.check_common(b, sh, f"after grow({n})")
        elif kind == "huge":
            # a request that cannot be honoured (2^62 bytes): it fails - and the buffer is as it was: capacity, free list, free
            # total, every live byte (not sent to the model: nothing happens)
            _, how = op
            before = (state_line(b), buf_bytes(b))
            try:
                if how == "alloc":
                    b.allocate(2 ** 62)
                else:
                    b.grow(2 ** 62)
                self.failure("C04", "huge-request-accepted", f"{how} of 2^62 bytes did not fail")
                return False
            except Exception:
                self.tags["huge." + how] += 1
            if (state_line(b), buf_bytes(b)) != before:
                for prop in ("C04", "C12"):
                    self.failure(prop, "failed-request-changed-state", f"after the failed {how} of 2^62 bytes the buffer reports "
                                 f"`{state_line(b)[:120]}` over {len(buf_bytes(b))} bytes of storage; before: `{before[0][:120]}` over {len(before[1])}")
                return False
            self.check_common(b, sh, f"after a failed {how} of 2^62 bytes")
        elif kind == "write":
            _, idx, seed = op
            o, n, _ = sh.live[idx]
            data = pattern(seed, n)
            self.lines.append(f"write {o} {data.hex() if n else '-'}")
            b.update_from_buffer(o, data)
            sh.live[idx][2] = data
            self.expect.append("ok " + state_line(b))
            self.tags["write"] += 1
            self.check_common(b, sh, f"after write({o},{n})")
        if self.cfg.get("dump"):
            self.lines.append("dump")
            self.expect.append("mem " + buf_bytes(b).hex())
        return not self.fail


def random_opgen(r, nops):
    def gen(b, sh):
        for _ in range(nops):
            k = r.choice(["alloc"] * 5 + ["free"] * 4 + ["grow"] + ["write"] * 3)
            if r.random() < 0.04:
                yield ("huge", r.choice(["alloc", "grow"]))
                continue
            if k == "alloc":
                if b.chunks and r.random() < 0.3:      # exact fit of an existing chunk
                    c = r.choice(b.chunks)
                    n = c.end - c.start
                elif r.random() < 0.1:                 # force growth
                    n = b.capacity + r.choice([0, 1, 7])
                else:
                    n = r.choice([0, 0, 1, 2, 3, 5, 8, 9, 16, 17, 33, 100])
                yield ("alloc", n, r.random() < 0.7)
            elif k == "free":
                if sh.live:
                    yield ("free", r.randrange(len(sh.live)))
            elif k == "grow":
                yield ("grow", r.choice([0, 1, 8, 50]))
            else:
                if sh.live:
                    yield ("write", r.randrange(len(sh.live)), r.randrange(1 << 30))
    return gen


def fixed_opgen(ops):
    def gen(b, sh):
        for op in ops:
            op = tuple(op)
            if op[0] in ("free", "write") and op[1] >= len(sh.live):
                continue
            yield op
    return gen


def random_cfg(r):
    return {
        "kind": r.choice(KINDS),
        "cap": r.choice([0, 0, 1, 8, 16, 24, 64, 200, 1000]),
        "align": r.choice([1, 2, 4, 8, 16, 32, 64]),
        "grow_step": r.choice([None, None, 1, 7, 64, 1000]),
        "dump": r.random() < 0.2,
    }


def corpus_cases():
    """minimised past failures, run first"""
    return [
        # O-1: free on a completely full buffer
        ({"kind": "numpy", "cap": 16, "align": 1, "grow_step": None, "dump": True},
         [("alloc", 16, False), ("free", 0), ("alloc", 8, True)]),
        # a request that fails half way must leave the bookkeeping as it was: the next requests are served from real storage
        ({"kind": "numpy", "cap": 64, "align": 1, "grow_step": None},
         [("alloc", 40, True), ("huge", "alloc"), ("alloc", 100, True), ("huge", "grow"), ("free", 0), ("alloc", 30, False), ("write", 1, 7)]),
        ({"kind": "bytearray", "cap": 64, "align": 8, "grow_step": 24},
         [("alloc", 40, True), ("huge", "grow"), ("alloc", 100, True), ("huge", "alloc"), ("alloc", 3, False), ("write", 1, 9)]),
        ({"kind": "bytearray", "cap": 8, "align": 8, "grow_step": 7, "dump": False},
         [("alloc", 8, True), ("alloc", 0, True), ("free", 1), ("free", 0)]),
        # O-2: many growth rounds with a small grow step
        ({"kind": "numpy", "cap": 5000, "align": 8, "grow_step": 1, "dump": False},
         [("alloc", 5000, False), ("alloc", 2000, True), ("write", 1, 5), ("free", 0), ("alloc", 64, True)]),
        # zero capacity, zero sizes
        ({"kind": "bytearray", "cap": 0, "align": 1, "grow_step": None, "dump": True},
         [("alloc", 0, False), ("alloc", 0, True), ("alloc", 3, True), ("free", 0), ("grow", 0), ("alloc", 1, False)]),
        # adjacent regions freed in both orders
        ({"kind": "numpy", "cap": 32, "align": 1, "grow_step": None, "dump": True},
         [("alloc", 8, False), ("alloc", 8, False), ("alloc", 8, False), ("alloc", 8, False),
          ("free", 1), ("free", 1), ("alloc", 16, False), ("free", 0), ("free", 0), ("free", 0), ("alloc", 32, False)]),
    ]


def exhaustive_cases(maxlen):
    """every history of length <= maxlen over a small alphabet (supports the tie; not a proof)"""
    alphabet = [("alloc", n, al) for n in (0, 3, 8, 9) for al in (True, False)] + \
               [("free", 0), ("free", 1), ("grow", 5)]
    for cap in (0, 8, 16):
        for align in (1, 8):
            for L in range(1, maxlen + 1):
                for ops in itertools.product(alphabet, repeat=L):
                    yield ({"kind": "numpy", "cap": cap, "align": align, "grow_step": None, "dump": False}, list(ops))


def run_all(tier, seed, want_exhaustive=True):
    """returns dict(lines, mismatches[Failure], failures[Failure], tags, cases, samples, distinct)"""
    xo = common.import_xobjects()
    r = random.Random(seed * 7919 + 17)
    runs = []
    for cfg, ops in corpus_cases():
        runs.append(CaseRun(xo, cfg).run(fixed_opgen(ops)))
    ncases, nops = (300, 60) if tier == "quick" else (6000, 80)
    for _ in range(ncases):
        runs.append(CaseRun(xo, random_cfg(r)).run(random_opgen(r, r.randrange(1, nops))))
    nexh = 0
    if want_exhaustive:
        for cfg, ops in exhaustive_cases(2 if tier == "quick" else 4):
            runs.append(CaseRun(xo, cfg).run(fixed_opgen(ops)))
            nexh += 1
    answers = common.run_driver_sharded("alloc", [c.lines for c in runs])
    mismatches, failures, tags = [], [], collections.Counter()
    distinct = set()
    nlines = 0
    for c, got in zip(runs, answers):
        tags.update(c.tags)
        failures.extend(c.fail)
        nlines += len(c.lines)
        if len(c.ops_done) >= 2:
            distinct.add((tuple(sorted((k, v) for k, v in c.cfg.items() if k != "dump")), tuple(c.ops_done)))
        for i, (l, e, g) in enumerate(zip(c.lines, c.expect, got)):
            if e != g:
                mismatches.append(common.Failure(
                    "tie", f"alloc-tie:{l.split()[0]}", f"op `{l}`: implementation `{e[:160]}` model `{g[:160]}`",
                    {"component": "alloc", "config": c.cfg, "ops": list(c.ops_done), "line_index": i,
                     "impl": e[:400], "model": g[:400]}))
                break
    samples = [{"config": c.cfg, "ops": c.ops_done[:12], "answers": [e[:160] for e in c.expect[:4]]} for c in runs[5:8]]
    return {"lines": nlines, "cases": len(runs), "exhaustive_cases": nexh, "mismatches": mismatches,
            "failures": failures, "tags": dict(tags), "samples": samples, "distinct": len(distinct)}


def replay(rep):
    """re-run a recorded history on the real code; returns the failures the oracle sees"""
    xo = common.import_xobjects()
    c = CaseRun(xo, rep["config"]).run(fixed_opgen(rep["ops"]))
    got = common.run_driver("alloc", c.lines)
    mism = [(l, e, g) for l, e, g in zip(c.lines, c.expect, got) if e != g]
    return c.fail, mism
