"""Placement component (C11): `typeutils.allocate_on_buffer` and the public constructors against the Lean model `Place.decide`
for EVERY combination of context / buffer / offset arguments (3 x 4 x 7 requests x 4 entry points).

  place <ctx|-> <buf:ctxOfBuf|-> <none|aligned|packed|N>  ->  err offset | err context | fresh <ctx> <how> | given <buf> <how>

Oracles (independent of the model): a refused request creates no buffer, allocates nothing and leaves every existing buffer (bytes
and free list) as it was; an accepted request with a numeric offset leaves the allocator untouched and the object starts there."""
import collections

from . import common


def run_all(tier, seed):
    xo = common.import_xobjects()
    from xobjects import typeutils
    from xobjects.context import XBuffer

    fails, tags = [], collections.Counter()
    lines, expect, ctxs = [], [], []

    def fail(key, what, ctx):
        fails.append(common.Failure("oracle", "C11:" + key, what, ctx))

    S = type(xo.Struct)("PlaceS", (xo.Struct,), {"a": xo.Float64, "b": xo.Int64})
    entries = {
        "allocate_on_buffer": lambda kw: typeutils.allocate_on_buffer(16, kw.get("_context"), kw.get("_buffer"), kw.get("_offset")),
        "Struct": lambda kw: S(a=1.5, b=2, **kw),
        "Array": lambda kw: xo.Float64[2]([1.0, 2.0], **kw),
        "String": lambda kw: xo.String("abcdefg", **kw),
    }
    calls = []
    orig = XBuffer.allocate

    def traced(self, size, align=True):
        o = orig(self, size, align)
        calls.append((self, int(size), bool(align), int(o)))
        return o

    XBuffer.allocate = traced
    try:
        for ename, fn in entries.items():
            for ci in (None, 0, 1, 2):
                for bi in (None, 0, 1, 2):
                    for off in (None, "aligned", "packed", 0, 8, 24, 40):
                        cs = {0: typeutils.context_default, 1: xo.ContextCpu(), 2: xo.ContextCpu()}
                        bufs = {k: c.new_buffer(128) for k, c in cs.items()}
                        for b in bufs.values():
                            b.allocate(3)                       # prior history: the next allocation is not at 0
                            b.update_from_buffer(0, bytes([0xA5]) * 128)
                        before = {k: (bytes(b.to_bytearray(0, b.capacity)), [(c.start, c.end) for c in b.chunks], b.capacity) for k, b in bufs.items()}
                        kw = {}
                        if ci is not None:
                            kw["_context"] = cs[ci]
                        if bi is not None:
                            kw["_buffer"] = bufs[bi]
                        if off is not None:
                            kw["_offset"] = off
                        line = f"place {'-' if ci is None else ci} {'-' if bi is None else f'{10 + bi}:{bi}'} {'none' if off is None else off}"
                        cx = {"component": "place", "entry": ename, "context": ci, "buffer": bi, "offset": off}
                        del calls[:]
                        try:
                            res = fn(kw)
                            err = None
                        except Exception as ex:
                            res, err = None, ex
                        mine = [c for c in calls]
                        if err is not None:
                            msg = str(err)
                            got = "err offset" if "without buffer" in msg else "err context" if "Mismatched" in msg else f"err other:{type(err).__name__}"
                            tags["refused." + got.split()[1]] += 1
                            # refusal: nothing happened
                            if mine:
                                fail("misuse-side-effect:allocation", f"{ename} {line}: refused ({msg[:60]}) after allocating {[(c[1], c[3]) for c in mine]}", cx)
                            for k, b in bufs.items():
                                now = (bytes(b.to_bytearray(0, b.capacity)), [(c.start, c.end) for c in b.chunks], b.capacity)
                                if now != before[k]:
                                    fail("misuse-side-effect:buffer", f"{ename} {line}: refused, but buffer {k} changed (bytes / free list / capacity)", cx)
                        else:
                            if ename == "allocate_on_buffer":
                                rb, ro = res
                            else:
                                rb, ro = res._buffer, res._offset
                            sel = next((f"given {10 + k}" for k, b in bufs.items() if rb is b), None)
                            if sel is None:
                                k = next((k for k, c in cs.items() if rb.context is c), None)
                                sel = f"fresh {k}"
                            top = [c for c in mine if c[0] is rb]
                            if isinstance(off, int):
                                how = f"at {int(ro)}" if not top else f"alloc {int(top[0][2])}"
                                now = ([(c.start, c.end) for c in rb.chunks], rb.capacity)
                                if sel.startswith("given") and now != (before[bi][1], before[bi][2]):
                                    fail("placement:allocator-touched", f"{ename} {line}: an explicit offset changed the free list / capacity", cx)
                            else:
                                how = f"alloc {int(top[0][2])}" if top else "alloc ?"
                                if top and int(top[0][3]) != int(ro):
                                    fail("placement:offset", f"{ename} {line}: allocate returned {top[0][3]}, the object is at {ro}", cx)
                            got = f"{sel} {how}"
                            tags["accepted." + sel.split()[0] + "." + how.split()[0]] += 1
                        lines.append(line)
                        expect.append(got)
                        ctxs.append(cx)
    finally:
        XBuffer.allocate = orig
    out = common.run_driver("place", lines)
    mism = []
    for l, e, g, c in zip(lines, expect, out, ctxs):
        if e != g:
            mism.append(common.Failure("tie", "place-tie", f"{c['entry']} `{l}`: implementation `{e}` model `{g}`", c))
            if g.startswith("err") and not e.startswith("err"):
                fails.append(common.Failure("oracle", "C11:misuse-accepted:" + g.split()[1], f"{c['entry']}(context={c['context']}, buffer={c['buffer']}, "
                                            f"offset={c['offset']!r}) was accepted ({e}); {'an explicit offset without a buffer' if 'offset' in g else 'a buffer of another context'} must be refused", c))
    return {"failures": fails, "mismatches": mism, "lines": len(lines), "distinct": len(set(lines)), "tags": dict(tags)}
